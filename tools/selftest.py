#!/usr/bin/env python3
"""Sensitivity test of the monitors (developer tool, not a registered check).

  tools/selftest.py [--jobs N] [--props C01,C09] [--only NAME] [--tier quick]

For every patch under /verif/mutants/*.diff and /verif/seeded/*/patch.diff: make a scratch
copy of /repo at HEAD and of /verif (outside both), apply the patch to the scratch repo, point
the scratch harness at it, run the scratch `check <Cxx> quick` for the selected properties and
record which checks report a violation. Scratch copies are removed afterwards. /repo itself is
never touched. Results: /verif/SELFTEST.md (matrix) and /verif/selftest.json.
"""
import glob
import json
import os
import shutil
import subprocess
import sys
import tempfile
import time
from concurrent.futures import ThreadPoolExecutor

VERIF = os.path.dirname(os.path.dirname(os.path.abspath(__file__)))
PROPS = ["C%02d" % i for i in range(1, 20)]


def sh(cmd, cwd=None, env=None, timeout=None):
    p = subprocess.run(cmd, cwd=cwd, env=env, stdout=subprocess.PIPE, stderr=subprocess.STDOUT, text=True, timeout=timeout)
    return p.returncode, p.stdout


def patches():
    out = []
    try:
        declared = json.load(open(os.path.join(VERIF, "mutants", "declared.json")))
    except Exception:  # noqa
        declared = {}
    for f in sorted(glob.glob(os.path.join(VERIF, "mutants", "*.diff"))):
        n = os.path.basename(f)[:-5]
        out.append((n, f, declared.get(n)))
    for f in sorted(glob.glob(os.path.join(VERIF, "benign", "*.diff"))):
        out.append(("benign-" + os.path.basename(f)[:-5], f, None))
    for f in sorted(glob.glob(os.path.join(VERIF, "mechanical", "*.diff"))):
        out.append(("mech-" + os.path.basename(f)[:-5], f, None))
    for d in sorted(glob.glob(os.path.join(VERIF, "seeded", "*"))):
        f = os.path.join(d, "patch.diff")
        if os.path.exists(f):
            meta = {}
            try:
                meta = json.load(open(os.path.join(d, "meta.json")))
            except Exception:  # noqa
                pass
            out.append((os.path.basename(d), f, meta.get("property")))
    return out


FIRST_CATCH = False


def run_one(name, patch, props, tier, with_target):
    scratch = tempfile.mkdtemp(prefix="purl_st_")
    res = {"name": name, "results": {}, "error": None}
    try:
        repo = os.path.join(scratch, "repo")
        rc, out = sh(["git", "clone", "-q", "--no-hardlinks", "/repo", repo])
        if rc != 0:
            res["error"] = "clone failed: " + out[-300:]
            return res
        rc, out = sh(["git", "apply", patch], cwd=repo)
        if rc != 0:
            res["error"] = "patch does not apply: " + out[-300:]
            return res
        v = os.path.join(scratch, "verif")
        os.makedirs(v)
        for item in ["check", "known_findings.json", "MANIFEST.json"]:
            shutil.copy(os.path.join(VERIF, item), os.path.join(v, item))
        shutil.copytree(os.path.join(VERIF, "harness"), os.path.join(v, "harness"), ignore=shutil.ignore_patterns("target"))
        ct = os.path.join(v, "harness", "Cargo.toml")
        s = open(ct).read().replace('path = "/repo/purl"', 'path = "%s/purl"' % repo)
        open(ct, "w").write(s)
        if with_target and os.path.isdir(os.path.join(VERIF, "target", "main")):
            # reuse compiled dependencies
            os.makedirs(os.path.join(v, "target"))
            variants = ["main"] + (["f_none", "f_pt", "f_default", "f_full"] if "C17" in props else []) + (["plain"] if tier == "thorough" else [])
            for var in variants:
                src = os.path.join(VERIF, "target", var)
                if os.path.isdir(src):
                    sh(["cp", "-r", src, os.path.join(v, "target", var)])
        env = dict(os.environ)
        for p in props:
            t0 = time.time()
            rc, out = sh([os.path.join(v, "check"), p, tier], cwd=v, env=env, timeout=3600)
            sigs = [l.strip()[len("signature: "):] for l in out.splitlines() if l.strip().startswith("signature: ")]
            res["results"][p] = {"exit": rc, "signatures": sigs[:6], "wall_s": round(time.time() - t0, 1),
                                 "note": "" if rc in (0, 1) else out[-300:]}
            if FIRST_CATCH and rc == 1:
                break
    except Exception as ex:  # noqa
        res["error"] = repr(ex)
    finally:
        shutil.rmtree(scratch, ignore_errors=True)
    return res


def main():
    a = sys.argv[1:]

    def opt(flag, default):
        return a[a.index(flag) + 1] if flag in a else default

    global FIRST_CATCH
    FIRST_CATCH = "--first-catch" in a
    jobs = int(opt("--jobs", "2"))
    props = opt("--props", ",".join(PROPS)).split(",")
    only = opt("--only", None)
    tier = opt("--tier", "quick")
    import re
    rx = opt("--match", None)
    todo = [p for p in patches() if (only is None or only in p[0]) and (rx is None or re.search(rx, p[0]))]
    if "--skip-done" in a:
        try:
            done = {r["name"]: r for r in json.load(open(os.path.join(VERIF, "selftest.json")))}
        except Exception:  # noqa
            done = {}
        todo = [p for p in todo if not all(q in done.get(p[0], {}).get("results", {}) for q in props)]
    declared_only = "--declared-only" in a
    results = []
    with ThreadPoolExecutor(max_workers=jobs) as ex:
        futs = [ex.submit(run_one, n, f, ([d] if declared_only and d else props), tier, True) for n, f, d in todo]
        for (n, f, prop), fu in zip(todo, futs):
            r = fu.result()
            r["declared_property"] = prop
            results.append(r)
            caught = [p for p, x in r["results"].items() if x["exit"] == 1]
            odd = [p for p, x in r["results"].items() if x["exit"] not in (0, 1)]
            print("%-44s caught by: %-40s %s%s" % (n, ",".join(caught) or "-", ("inconclusive: " + ",".join(odd)) if odd else "", (" ERROR " + r["error"]) if r["error"] else ""), flush=True)
            write_results([r])
    write_results(results)
    return 0


def write_results(results):
    # merge with earlier results
    path = os.path.join(VERIF, "selftest.json")
    old = {}
    if os.path.exists(path):
        try:
            old = {r["name"]: r for r in json.load(open(path))}
        except Exception:  # noqa
            old = {}
    for r in results:
        if r["name"] in old:
            merged = dict(old[r["name"]]["results"])
            merged.update(r["results"])
            r["results"] = merged
        old[r["name"]] = r
    allr = [old[k] for k in sorted(old)]
    json.dump(allr, open(path, "w"), indent=1)
    groups = [
        ("The four repaired defects re-introduced, and the non-termination test mutant (`/verif/mutants/`)", lambda n: n[0] in "DT"),
        ("Seeded by independent sub-agents, first round (`/verif/seeded/CNN-k`)", lambda n: n.startswith("C") and "w" not in n),
        ("Second round (`CNNw2-k`)", lambda n: n.startswith("C") and n[3:].split("-")[0] == "w2"),
        ("Third round (`CNNw4-k`)", lambda n: n.startswith("C") and n[3:].split("-")[0] == "w4"),
    ] + [
        ("%s round (`CNN%s-k`)" % (nm, w), (lambda w: lambda n: n.startswith("C") and n[3:].split("-")[0] == w)(w))
        for nm, w in [("Fourth", "w5"), ("Fifth", "w6"), ("Sixth", "w7"), ("Seventh", "w8"), ("Eighth", "w9"), ("Ninth", "w10"), ("Tenth", "w11"), ("Eleventh", "w12")]
    ] + [
        ("Behaviour-preserving refactorings (`/verif/benign/`): every check must stay silent", lambda n: n.startswith("benign-")),
        ("Mechanical single-token mutants that survive the repository's own tests (`/verif/mechanical/`, run until the first check fires)", lambda n: n.startswith("mech-")),
    ]
    with open(os.path.join(VERIF, "SELFTEST.md"), "w") as f:
        f.write("# Which checks catch which changes\n\n")
        f.write("Produced by `tools/selftest.py` on scratch copies of /repo and /verif (quick tier). `X` = the check exits 1 with a VIOLATION line, `.` = silent, `?` = inconclusive (exit 2), blank = not run against this change. The *declared* column is the property the change was written to break.\n")
        for title, pred in groups:
            rows = [r for r in allr if pred(r["name"])]
            if not rows:
                continue
            caught = sum(1 for r in rows if any(x["exit"] == 1 for x in r["results"].values()))
            f.write("\n## %s\n\n%d changes, %d caught by at least one check.\n\n" % (title, len(rows), caught))
            f.write("| change | declared | " + " | ".join(p[1:] for p in PROPS) + " |\n")
            f.write("|---|---|" + "---|" * len(PROPS) + "\n")
            for r in rows:
                cells = []
                for p in PROPS:
                    x = r["results"].get(p)
                    cells.append(" " if x is None else ("X" if x["exit"] == 1 else "." if x["exit"] == 0 else "?"))
                f.write("| %s | %s | %s |\n" % (r["name"], r.get("declared_property") or "", " | ".join(cells)))
    return 0


if __name__ == "__main__":
    sys.exit(main())
