#!/bin/bash
# Which lines / regions of purl do the monitors' quick workloads actually execute?
# Developer tool (not a registered check): builds the driver with -Cinstrument-coverage on the
# nightly toolchain, runs every property's quick workload, and writes /verif/COVERAGE.md.
#   tools/coverage.sh [scale-percent]      (default 100)
set -euo pipefail
VERIF="$(cd "$(dirname "$0")/.." && pwd)"
SCALE="${1:-100}"
BIN="$HOME/.rustup/toolchains/nightly-x86_64-unknown-linux-gnu/lib/rustlib/x86_64-unknown-linux-gnu/bin"
T="$VERIF/target/cov"
W="$VERIF/work/cov"
rm -rf "$W"; mkdir -p "$W"
export CARGO_NET_OFFLINE=true
(cd "$VERIF/harness" && LLVM_PROFILE_FILE="$W/build-%p-%m.profraw" RUSTFLAGS="-Cinstrument-coverage" CARGO_TARGET_DIR="$T" cargo +nightly build --release --bin driver --offline 2>&1 | tail -1)
rm -f "$W"/build-*.profraw
for p in C01 C02 C03 C04 C05 C06 C07 C08 C09 C10 C11 C12 C13 C14 C15 C16 C18 C19; do
  LLVM_PROFILE_FILE="$W/$p-%p.profraw" "$T/release/driver" "$p" --tier quick --seed 1 --scale "$SCALE" --out "$W/$p.json" >/dev/null 2>&1 || true
  "$BIN/llvm-profdata" merge -sparse "$W"/$p-*.profraw -o "$W/$p.profdata"
  rm -f "$W"/$p-*.profraw
done
"$BIN/llvm-profdata" merge -sparse "$W"/*.profdata -o "$W/all.profdata"
SRC=$(ls /repo/purl/src/*.rs /repo/purl/src/qualifiers/*.rs /repo/purl/src/qualifiers/well_known/*.rs)
{
  echo "# Coverage of purl by the monitors' quick workloads"
  echo
  echo "Produced by \`tools/coverage.sh\` (driver built with \`-Cinstrument-coverage\`, nightly llvm-cov; C17's"
  echo "transcript binaries are not included). Unit-test code inside \`#[cfg(test)]\` modules is not compiled"
  echo "into the driver, so it does not appear. Scale: ${SCALE}% of the quick workloads."
  echo
  echo '## All checks together'
  echo
  echo '```'
  "$BIN/llvm-cov" report "$T/release/driver" -instr-profile="$W/all.profdata" $SRC 2>/dev/null
  echo '```'
  echo
  echo '## Lines of purl never executed by any monitor'
  echo
  echo '```'
  "$BIN/llvm-cov" show "$T/release/driver" -instr-profile="$W/all.profdata" $SRC -show-line-counts-or-regions=false 2>/dev/null \
    | awk '/^\/repo/ {file=$0} /^ +[0-9]+\| +0\|/ {print file " " $0}' | sed 's/:$//' | head -80
  echo '```'
  echo
  echo '## Per check (regions / lines of purl covered)'
  echo
  echo '| check | region cover | line cover |'
  echo '|---|---|---|'
  for p in C01 C02 C03 C04 C05 C06 C07 C08 C09 C10 C11 C12 C13 C14 C15 C16 C18 C19; do
    "$BIN/llvm-cov" report "$T/release/driver" -instr-profile="$W/$p.profdata" $SRC 2>/dev/null | awk -v p="$p" '/^TOTAL/ {print "| " p " | " $4 " | " $10 " |"}'
  done
} > "$VERIF/COVERAGE.md"
rm -rf "$W"
tail -30 "$VERIF/COVERAGE.md"
