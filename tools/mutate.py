#!/usr/bin/env python3
"""Mechanical mutation campaign (developer tool, not a registered check).

  tools/mutate.py generate [--max N]     write /verif/mechanical/M<nnn>.diff for every single-token
                                         mutant of purl/src that still compiles AND passes the
                                         repository's own tests (the others are of no interest: the
                                         existing suite already rejects them)
  tools/mutate.py score                  summarise selftest.json for the mechanical mutants

The mutants are then run through `tools/selftest.py --match '^mech-' --first-catch`.
Everything happens on scratch clones outside /repo and /verif; they are removed afterwards.
"""
import json
import os
import re
import shutil
import subprocess
import sys
import tempfile
from concurrent.futures import ThreadPoolExecutor

VERIF = os.path.dirname(os.path.dirname(os.path.abspath(__file__)))
OUT = os.path.join(VERIF, "mechanical")
FILES = ["purl/src/lib.rs", "purl/src/parse.rs", "purl/src/format.rs", "purl/src/builder.rs",
         "purl/src/package_type.rs", "purl/src/qualifiers.rs", "purl/src/qualifiers/well_known.rs"]

# (regex, replacement) — applied to one occurrence at a time
OPERATORS = [
    (r"\brsplit_once\b", "split_once"),
    (r"(?<!r)\bsplit_once\b", "rsplit_once"),
    (r"\btrim_matches\b", "trim_start_matches"),
    (r"\btrim_matches\b", "trim_end_matches"),
    (r"\btrim_start_matches\('/'\)", "trim_start_matches('#')"),
    (r" && ", " || "),
    (r" \|\| ", " && "),
    (r" == ", " != "),
    (r" != ", " == "),
    (r" < ", " <= "),
    (r" > ", " >= "),
    (r"\.is_empty\(\)", ".is_empty() == false"),
    (r"!([a-z_\.]+)\.is_empty\(\)", r"\1.is_empty()"),
    (r"\.add\(b'(.)'\)", ""),
    (r"\bmake_ascii_lowercase\(\)", "len()"),
    (r"\bto_ascii_lowercase\(\)", "to_ascii_uppercase()"),
    (r"\bis_ascii_lowercase\(\)", "is_ascii_alphabetic()"),
    (r"\bis_ascii_alphanumeric\(\)", "is_ascii_alphabetic()"),
    (r"\bis_ascii_alphanumeric\(\)", "is_alphanumeric()"),
    (r"\bis_ascii_hexdigit\(\)", "is_ascii_alphanumeric()"),
    (r"\bis_ascii_hexdigit\(\)", "is_ascii_digit()"),
    (r"\bcontinue;", "{}"),
    (r"\bsort_unstable_by\(\|a, b\| a\.0\.cmp\(&b\.0\)\)", "sort_unstable_by(|a, b| b.0.cmp(&a.0))"),
    (r"\[\"\", \"\.\", \"\.\.\"\]", "[\"\", \".\"]"),
    (r"\[\"\", \"\.\", \"\.\.\"\]", "[\"\", \"..\"]"),
    (r"\[\"\.\", \"\.\.\"\]", "[\".\"]"),
    (r"\[\"\.\", \"\.\.\"\]", "[\"..\"]"),
    (r"&\['\.', '-', '_'\]", "&['.', '-']"),
    (r"&\['\.', '\+', '-'\]", "&['.', '+']"),
    (r"&\['-', '_', '\.'\]", "&['-', '_']"),
    (r"% 2 != 0", "% 2 != 1"),
    (r"\.retain\(\|_, v\| !v\.is_empty\(\)\)", ".retain(|_, v| v.len() != 1)"),
    (r"\bOk\(index\) => Entry::Occupied", "Err(index) => Entry::Occupied"),
    (r"Some\(\(namespace, name\)\) => \(Some\(namespace\), name\)", "Some((namespace, name)) => (Some(name), namespace)"),
    (r"\.filter\(\|v\| !v\.is_empty\(\)\)", ""),
    (r"\bpush\('/'\)", "push('-')"),
    (r"\bpush\('-'\)", "push('_')"),
    (r"\bpush\(','\)", "push(';')"),
    (r"\bpush\(':'\)", "push('=')"),
    (r"prefix = '&'", "prefix = '?'"),
    (r"\"@\{\}\"", "\"@@{}\""),
    (r"\"#\{\}\"", "\"{}\""),
    (r"\"\{\}/\"", "\"{}\""),
    (r"\.insert\(i, ", ".insert(0, "),
    (r"self\.index\)", "0)"),
    (r"in_dash = true", "in_dash = false"),
    (r"in_dash = false", "in_dash = true"),
    (r"\.next_back\(\)\?", ".next()?"),
    (r"\bmem::swap\(&mut v, ", "mem::swap(&mut v.clone(), "),
    (r"\bPurlField::Name\b", "PurlField::Namespace"),
    (r"ParseError::InvalidEscape", "ParseError::InvalidQualifier"),
    (r"ParseError::InvalidQualifier", "ParseError::InvalidEscape"),
    (r"ParseError::InvalidPackageType", "ParseError::InvalidQualifier"),
    (r"ParseError::UnsupportedUrlScheme", "ParseError::InvalidPackageType"),
    (r"PackageError::UnsupportedType", "PackageError::MissingRequiredField(PurlField::Namespace)"),
    (r"\"pkg:\"", "\"pkg\""),
    (r"Cow::Borrowed\(bytes\)", "Cow::Owned(bytes.to_uppercase())"),
    (r"c\.to_ascii_lowercase\(\)", "c"),
    (r"\.flat_map\(\|c\| c\.to_lowercase\(\)\)", ".flat_map(|c| c.to_uppercase())"),
    (r"\bresult\.extend\(c\.to_lowercase\(\)\)", "result.push(c)"),
    (r"\blowercase_in_place\(&mut parts\.name\);", "{}"),
    (r"\bfix_pypi_name\(&mut parts\.name\);", "{}"),
    (r"\bself\.get\(Q::KEY\)", "self.get(\"\")"),
    (r"\bQ::KEY, value\)", "Q::KEY, value.clone())"),
    (r"\.position\(", ".rposition("),
    (r"\bfind\(", "rfind("),
    (r"\brfind\(", "find("),
]


def sh(cmd, cwd, timeout=1800):
    e = dict(os.environ)
    e["CARGO_NET_OFFLINE"] = "true"
    p = subprocess.run(cmd, cwd=cwd, env=e, stdout=subprocess.PIPE, stderr=subprocess.STDOUT, text=True, timeout=timeout)
    return p.returncode, p.stdout


def structural_candidates():
    """Second family: statement deletion, condition negation / forcing, numeric literals +-1."""
    out = []
    for f in FILES:
        lines = open(os.path.join("/repo", f)).read().split("\n")
        for i, line in enumerate(lines):
            if line.strip().startswith("#[cfg(test)]"):
                break
            st = line.strip()
            if st.startswith("//") or st.startswith("#[") or st.startswith("use ") or not st:
                continue
            ind = line[: len(line) - len(line.lstrip())]
            # delete a simple statement
            if st.endswith(";") and not st.startswith(("let ", "pub ", "const ", "static ", "type ", "return", "}")) and "=>" not in st:
                out.append((f, i, ind + "// (deleted)", "%s:%d  delete statement: %s" % (f, i + 1, st[:70])))
            # conditions
            m = re.match(r"^(\s*)(\} else )?if (?!let )(.+) \{$", line)
            if m:
                pre, els, cond = m.group(1), m.group(2) or "", m.group(3)
                out.append((f, i, "%s%sif !(%s) {" % (pre, els, cond), "%s:%d  negate condition: %s" % (f, i + 1, cond[:60])))
                out.append((f, i, "%s%sif true {" % (pre, els), "%s:%d  force condition true: %s" % (f, i + 1, cond[:60])))
                out.append((f, i, "%s%sif false {" % (pre, els), "%s:%d  force condition false: %s" % (f, i + 1, cond[:60])))
            # numeric literals
            for m in re.finditer(r"(?<![\w.'])(\d+)(?![\w.'])", line):
                v = int(m.group(1))
                for nv in (v + 1, max(v - 1, 0)):
                    if nv != v:
                        new = line[: m.start()] + str(nv) + line[m.end():]
                        out.append((f, i, new, "%s:%d  literal %d -> %d in: %s" % (f, i + 1, v, nv, st[:50])))
            # return value of small predicates
            if st in ("true", "false"):
                out.append((f, i, ind + ("false" if st == "true" else "true"), "%s:%d  flip %s" % (f, i + 1, st)))
            for a, b in [(".rev()", ""), ("Some(", "None.or(Some("), (".ok()?", ".ok().unwrap_or_else(|| unreachable!())")]:
                pass
    return out


def candidates():
    """(file, line number, new line, description) for every single-site mutation."""
    out = []
    for f in FILES:
        lines = open(os.path.join("/repo", f)).read().split("\n")
        for i, line in enumerate(lines):
            if line.strip().startswith("#[cfg(test)]"):
                break
            st = line.strip()
            if st.startswith("//") or st.startswith("#[") or st.startswith("use ") or not st:
                continue
            for rx, rep in OPERATORS:
                for m in re.finditer(rx, line):
                    new = line[:m.start()] + m.expand(rep) + line[m.end():]
                    if new != line:
                        out.append((f, i, new, "%s:%d  %s -> %s" % (f, i + 1, m.group(0), m.expand(rep))))
    return out


def try_candidates(worker, cands, results):
    scratch = tempfile.mkdtemp(prefix="purl_mut_")
    try:
        repo = os.path.join(scratch, "repo")
        sh(["git", "clone", "-q", "/repo", repo], cwd=scratch)
        sh(["cargo", "build", "--workspace", "--tests", "--offline"], cwd=repo)
        for (idx, (f, ln, new, desc)) in cands:
            sh(["git", "checkout", "-q", "--", "."], cwd=repo)
            path = os.path.join(repo, f)
            lines = open(path).read().split("\n")
            lines[ln] = new
            open(path, "w").write("\n".join(lines))
            rc, out = sh(["cargo", "test", "--workspace", "--no-fail-fast", "--offline"], cwd=repo)
            passed = sum(int(x) for x in re.findall(r"test result: ok\. (\d+) passed", out))
            failed = sum(int(x) for x in re.findall(r"(\d+) failed", out))
            if rc == 0 and failed == 0 and passed >= 193:
                rc2, diff = sh(["git", "diff"], cwd=repo)
                results.append((idx, desc, diff))
                print("SURVIVES the test suite: %s" % desc, flush=True)
    finally:
        shutil.rmtree(scratch, ignore_errors=True)


def generate(maxn, structural=False):
    os.makedirs(OUT, exist_ok=True)
    cands = list(enumerate(structural_candidates() if structural else candidates()))
    if maxn:
        cands = cands[:maxn]
    print("%d candidate mutations" % len(cands))
    results = []
    jobs = 6
    with ThreadPoolExecutor(max_workers=jobs) as ex:
        for w in range(jobs):
            ex.submit(try_candidates, w, cands[w::jobs], results)
    results.sort()
    index = []
    for n, (idx, desc, diff) in enumerate(results):
        name = ("S%03d" if structural else "M%03d") % n
        open(os.path.join(OUT, name + ".diff"), "w").write(diff)
        index.append({"name": name, "mutation": desc})
    json.dump({"candidates": len(cands), "surviving_the_test_suite": len(results), "mutants": index},
              open(os.path.join(OUT, "index_structural.json" if structural else "index.json"), "w"), indent=1)
    print("%d of %d candidates compile and pass the 181 tests + 12 doctests" % (len(results), len(cands)))


def score(structural=False):
    idx = json.load(open(os.path.join(OUT, "index_structural.json" if structural else "index.json")))
    st = {r["name"]: r for r in json.load(open(os.path.join(VERIF, "selftest.json")))}
    killed, alive = [], []
    for m in idx["mutants"]:
        r = st.get("mech-" + m["name"], {}).get("results", {})
        k = sorted(p for p, x in r.items() if x["exit"] == 1)
        (killed if k else alive).append((m["name"], m["mutation"], k))
    print("candidates %d, surviving the repository's tests %d, caught by the monitors %d, not caught %d" % (
        idx["candidates"], idx["surviving_the_test_suite"], len(killed), len(alive)))
    for n, d, k in alive:
        print("NOT CAUGHT %s  %s" % (n, d))
    return killed, alive


if __name__ == "__main__":
    structural = "--structural" in sys.argv
    if len(sys.argv) > 1 and sys.argv[1] == "generate":
        generate(int(sys.argv[sys.argv.index("--max") + 1]) if "--max" in sys.argv else None, structural)
    else:
        score(structural)
