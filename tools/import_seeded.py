#!/usr/bin/env python3
"""Confirms and imports changes delivered by a sub-agent.

  tools/import_seeded.py <property id> <dir with changeK.diff demoK.rs noteK.md> [...]

For every changeK: scratch clone of /repo at HEAD (outside /repo and /verif);
 (1) demo on the pristine clone must pass; (2) with the change applied the workspace must
 compile, every pre-existing test must pass (181 tests + doctests) and the demo must fail.
Only then it is stored as /verif/seeded/<id>-<K>/ {patch.diff, demo.rs, note.md, meta.json}.
The scratch clone and its build output are removed afterwards.
"""
import json
import os
import re
import shutil
import subprocess
import sys
import tempfile

VERIF = os.path.dirname(os.path.dirname(os.path.abspath(__file__)))


def sh(cmd, cwd, timeout=1800):
    e = dict(os.environ)
    e["CARGO_NET_OFFLINE"] = "true"
    p = subprocess.run(cmd, cwd=cwd, env=e, stdout=subprocess.PIPE, stderr=subprocess.STDOUT, text=True, timeout=timeout)
    return p.returncode, p.stdout


def counts(out):
    """(passed, failed) summed over all 'test result:' lines."""
    p = f = 0
    for m in re.finditer(r"test result: \w+\. (\d+) passed; (\d+) failed", out):
        p += int(m.group(1))
        f += int(m.group(2))
    return p, f


FEATURE_SETS = {
    "C16": [["--features", "serde"]],
    "C17": [[], ["--no-default-features"], ["--no-default-features", "--features", "package-type"]],
}


def demo_runs(repo, prop):
    """Run the demo under every feature set relevant for the property: [(flags, rc, passed, failed)]."""
    res = []
    for flags in FEATURE_SETS.get(prop, [[]]):
        rc, out = sh(["cargo", "test", "-p", "purl", "--test", "demo", "--offline", "--no-fail-fast"] + flags, cwd=repo)
        p, f = counts(out)
        res.append((" ".join(flags) or "default", rc, p, f))
    return res


def main():
    prop, src = sys.argv[1], sys.argv[2]
    tag = sys.argv[3] if len(sys.argv) > 3 else prop
    scratch = tempfile.mkdtemp(prefix="purl_imp_")
    try:
        repo = os.path.join(scratch, "repo")
        sh(["git", "clone", "-q", "/repo", repo], cwd=scratch)
        for k in range(1, 10):
            diff = os.path.join(src, "change%d.diff" % k)
            demo = os.path.join(src, "demo%d.rs" % k)
            note = os.path.join(src, "note%d.md" % k)
            if not (os.path.exists(diff) and os.path.exists(demo)):
                continue
            name = "%s-%d" % (tag, k)
            sh(["git", "checkout", "-q", "--", "."], cwd=repo)
            shutil.rmtree(os.path.join(repo, "purl", "tests"), ignore_errors=True)
            os.makedirs(os.path.join(repo, "purl", "tests"))
            shutil.copy(demo, os.path.join(repo, "purl", "tests", "demo.rs"))
            r0 = demo_runs(repo, prop)
            p0 = sum(x[2] for x in r0)
            if any(x[1] != 0 or x[3] != 0 for x in r0) or p0 == 0:
                print("%s REJECTED: demo does not pass on the pristine tree: %s" % (name, r0))
                continue
            rc, out = sh(["git", "apply", diff], cwd=repo)
            if rc != 0:
                print("%s REJECTED: patch does not apply: %s" % (name, out[-200:]))
                continue
            # pre-existing suite (demo excluded)
            os.rename(os.path.join(repo, "purl", "tests", "demo.rs"), os.path.join(scratch, "demo.rs"))
            rc, out = sh(["cargo", "test", "--workspace", "--no-fail-fast", "--offline"], cwd=repo)
            p1, f1 = counts(out)
            if rc != 0 or f1 != 0 or p1 < 193:
                print("%s REJECTED: existing suite with the change: rc=%d passed=%d failed=%d" % (name, rc, p1, f1))
                continue
            os.rename(os.path.join(scratch, "demo.rs"), os.path.join(repo, "purl", "tests", "demo.rs"))
            r2 = demo_runs(repo, prop)
            p2, f2 = sum(x[2] for x in r2), sum(x[3] for x in r2)
            if f2 == 0:
                print("%s REJECTED: demo does not fail with the change: %s" % (name, r2))
                continue
            dst = os.path.join(VERIF, "seeded", name)
            os.makedirs(dst, exist_ok=True)
            shutil.copy(diff, os.path.join(dst, "patch.diff"))
            shutil.copy(demo, os.path.join(dst, "demo.rs"))
            needs = ""
            if os.path.exists(note):
                shutil.copy(note, os.path.join(dst, "note.md"))
                needs = open(note).read()
            meta = {
                "property": prop,
                "source": "independent sub-agent given only the property text and a scratch worktree",
                "needs_to_manifest": needs[:1500],
                "confirmed": {
                    "demo_on_pristine": "%d passed, 0 failed" % p0,
                    "demo_feature_sets": [x[0] for x in r0],
                    "demo_with_change_per_feature_set": ["%s: %d passed, %d failed" % (x[0], x[2], x[3]) for x in r2],
                    "existing_suite_with_change": "%d passed, 0 failed (cargo test --workspace --no-fail-fast --offline)" % p1,
                    "demo_with_change": "%d passed, %d failed" % (p2, f2),
                },
                "files_touched": sorted(set(re.findall(r"^\+\+\+ b/(\S+)", open(diff).read(), re.M))),
            }
            json.dump(meta, open(os.path.join(dst, "meta.json"), "w"), indent=1, ensure_ascii=False)
            print("%s ACCEPTED: pristine demo %d/0, suite %d/0, demo with change %d passed %d failed" % (name, p0, p1, p2, f2))
    finally:
        shutil.rmtree(scratch, ignore_errors=True)


if __name__ == "__main__":
    main()
