#!/usr/bin/env python3
"""Regenerates /verif/MANIFEST.json from the table below (single source of truth)."""
import json
import os

VERIF = os.path.dirname(os.path.dirname(os.path.abspath(__file__)))

TRUST = ("Trusted: the reference models in harness/src/{model,hist}.rs (no code shared with purl), Rust std, "
         "the harness' observation layer. Holds only for the executions produced (counts in the evidence file); "
         "complete for the sub-spaces listed under exhaustive_subspaces.")

# id -> (technique, level text, design ref)
CHECKS = {
    "C01": ("runtime monitoring: metamorphic round-trip oracle (parse->format->parse) over exhaustive token language, legal spellings, mutated corpus, escape soup; 3 instantiations",
            "Every accepted string of the workload is re-formatted and re-parsed by the real library and the fixpoint relation is judged per execution; complete for the bounded token language, sampled beyond.", "6/C01"),
    "C02": ("runtime monitoring: constructive oracle (generated tuple -> spelling) + independent strict recogniser R1, cross-checked against each other; exhaustive token language; all 18 spelling freedoms and their pairs counted",
            "Every spelling generated from a known component tuple, and every token-language string the strict recogniser accepts, is parsed by the real library and the reported components are compared with the expected ones, for the three parsable instantiations.", "6/C02"),
    "C03": ("runtime monitoring: independent renderer (reference model R2) compared with Display on every observed PURL; exhaustive over all Unicode scalars x 5 positions and ASCII pairs; values re-observed after print / take-apart / single-mutation histories; Display also under width, fill, precision and alternate flags",
            "to_string() of every PURL produced is compared with a renderer written from the property's sentence and fed only from the accessors; complete for single scalars and ASCII pairs in each position.", "6/C03"),
    "C04": ("runtime monitoring: invariant predicate evaluated on every PURL value obtained from parser and builder (5 built-in type parameters) and from the 3072-member user-shape family whose hook edits the parts (from_str, build(), GenericPurl::new); every Unicode scalar, raw and escaped, in 11 restricted syntactic slots",
            "The invariant of the statement is checked on each value the real library hands out, including values whose parts were rewritten by hostile finish hooks; stored parts are inspected through into_builder().", "6/C04"),
    "C05": ("runtime monitoring: strict recogniser R1 (never-accepted clause, exhaustive token language) + single-fault injection into legal spellings (error clause), injector cross-checked by R1; every Unicode scalar, raw and escaped, in 11 restricted syntactic slots",
            "Every string with a listed defect that the workload produces is fed to the real parser; acceptance, or a wrong error variant when the defect is provably the only one, is a violation. Complete for the bounded token language.", "6/C05"),
    "C06": ("runtime monitoring: catch_unwind + panic-hook oracle on every public call (built with overflow-checks and debug-assertions) over exhaustive token language, mutated corpus, escape soup, 1 MiB inputs, builder / qualifier / checksum histories; supervisor thread enforcing a thread-CPU bound; documented panics checked against a model; a driver process killed by a signal twice on the same seed is a violation",
            "Each call group runs under catch_unwind with message and location captured; the three documented panics are accepted only where the reference map / shape says their precondition holds; non-termination is judged as bounded progress (120 s thread CPU per input, confirmed alone in a subprocess).", "6/C06"),
    "C07": ("runtime monitoring: independent raw-piece scanner + own percent decoder compared with reported namespace/subpath segments; exhaustive piece sequences (17 piece kinds, <=4/5 pieces)",
            "Every accepted string is re-scanned independently and the reported segments must equal the decoded significant pieces; exhaustive over bounded piece sequences in both positions.", "6/C07"),
    "C08": ("runtime monitoring: name-rule model R4 + differential twins (parser vs builder, typed vs untyped) over every scalar value alone and in four rule-path contexts, all short names, token language, spellings with ecosystem vocabularies; builders re-targeted to another type",
            "Both entry points are executed for every (type, name) case and judged against the rule model; typed and untyped parses of the same string are compared field by field.", "6/C08"),
    "C09": ("runtime monitoring: lock-step builder model (R7) over exhaustive short call histories and random histories; parser as inverse; swapped-call replays",
            "Each history runs on the real builder and on the model; build outcome, accessors, re-parse of the string form and commutation of adjacent calls on different fields are judged per history.", "6/C09"),
    "C10": ("runtime monitoring: metamorphic oracle into_builder().build() == identity on every parsed and built value, 5 type parameters, all 7 package types",
            "Every value of the workload is converted back into a builder and re-built by the real library; equality and identical string are judged per value.", "6/C10"),
    "C11": ("runtime monitoring: lock-step reference map R5 (BTreeMap keyed by lower-cased key) over every reachable content of a small universe x every operation form, and long random histories; return values and full state compared after every step; 40 consuming iterator methods compared with the same methods on a slice of the model",
            "All 43 public operation forms of Qualifiers / Entry / iterators / QualifierKey are driven on the real collection and on the model; every return value, the iteration from both ends, len, Eq/Hash/Ord are compared per transition.", "6/C11"),
    "C12": ("runtime monitoring: checksum model R6 against the real HashMap-backed Checksum on many fresh instances per history (distinct hash iteration orders counted), all insertion orders for n<=4, PURL parse/build round trip, offline cross-process comparison of canonical texts",
            "Each history is executed on fresh randomly seeded instances; canonical text, parse-back, decoding and typed accessors are judged per instance, and the texts of several separate processes are compared.", "6/C12"),
    "C13": ("runtime monitoring: N-version differential comparison of the built-in type parameters (parser: String vs SmallString on the exhaustive token language; builder: String vs Cow::Borrowed vs Cow::Owned vs SmallString incl. invalid type strings)",
            "The same input is executed under every built-in type parameter and complete outcomes (setter results, Ok/Err, accessors, canonical string) are compared.", "6/C13"),
    "C14": ("runtime monitoring: online trace-specification checker over the call events of a 3072-member family of harness-side PurlShape+FromStr implementations, plus value model post(edit(seen)); three entries (from_str, build(), GenericPurl::new); inputs with injected single faults",
            "Each run's event trace (conversion / hook calls with arguments) is checked against the call protocol, and the result against what the hook wrote followed by the generic post-checks.", "6/C14"),
    "C15": ("runtime monitoring: table R8 + equations over all 192 case variants, every string <= 6 over the name letters and look-alikes, all one-edit neighbours, other spec types, padded and prefixed forms, byte-structured paddings, every ASCII string of the length of a name up to 4 (thorough 5) plus 5e9 random ones; every string also in the type position of a typed PURL",
            "Every string of the enumerated spaces is given to PackageType::from_str and acceptance is judged against ASCII-lower-cased equality with a name; all seven spellings of each variant are compared.", "6/C15"),
    "C16": ("runtime monitoring: differential oracle Deserialize vs FromStr and Serialize vs Display (serde_json, plain and \\u-escaped), a recording Serializer that must see exactly one string, non-string values via serde value deserializers; deserialize_in_place into stale values; JSON round trip of builder-made values",
            "Every input string of the workload goes through both entry points and outcomes are compared; every accepted value is serialised through serde_json and through a recording serializer.", "6/C16"),
    "C17": ("runtime monitoring: offline comparison of per-configuration transcripts (one deterministic input stream executed by four binaries built with {}, {package-type}, {default}, {default,serde}); a transcript program killed by a signal under one feature set only is a violation",
            "The same inputs are executed under each feature set of the real crate and the rendered results (accessors, canonical string, error variant and text) are compared line by line via block hashes.", "6/C17"),
    "C18": ("runtime monitoring: split model + inverse relation combined_name -> builder_with_combined_name, exhaustive over short strings x 7 types, every Unicode scalar in three positions x 7 types, a 150-token dictionary in nine positions and three letter cases, random hostile strings, typed PURLs from the spelling generator; the built PURL must report the split",
            "Every combined-name string is split by the real constructor and compared with the three-line model; for every typed PURL meeting the side condition the inverse relation is executed and judged.", "6/C18"),
    "C19": ("runtime monitoring: algebraic monitor over batches of near-colliding values (==, Hash, Ord, partial_cmp, antisymmetry, sorted-order transitivity, HashSet/BTreeSet/string-set sizes), 4 type parameters; every text field swept over all ASCII characters and (control character, hex digit) pairs",
            "All ordered pairs of each batch are compared through the real trait implementations and judged against canonical-string equality; batches are built from spellings, twins and one-separator-moved variants.", "6/C19"),
}

NOT_YET = {}


def main():
    checks = []
    for pid in sorted(CHECKS):
        tech, text, ref = CHECKS[pid]
        checks.append({
            "property_id": pid,
            "quick_cmd": "./check %s quick" % pid,
            "thorough_cmd": "./check %s thorough" % pid,
            "evidence_file": "/verif/evidence/%s.json" % pid,
            "replay_cmd_template": "./check replay {path}",
            "engine": "purl_verif driver",
            "level_claimed": {"category": "exploration", "text": text, "design_ref": "DESIGN.md section " + ref},
            "level_note": TRUST,
            "technique": tech,
        })
    na = [{"property_id": p, "reason": r} for p, r in sorted(NOT_YET.items())]
    for i in range(1, 20):
        p = "C%02d" % i
        if p not in CHECKS and p not in NOT_YET:
            na.append({"property_id": p, "reason": "monitor not built yet in this revision of /verif (planned, see DESIGN.md section 6); runtime monitoring does apply"})
    m = {
        "version": 1,
        "setup_cmd": "./check setup",
        "hooks": {
            "guard": "purl_verif",
            "enable": "no source hooks exist: every monitor observes the public API of purl, built from /repo's working tree by path dependency (the cfg name purl_verif is reserved and unused)",
            "baseline_off_cmd": "cd /repo && cargo test --workspace --no-fail-fast --offline",
            "source_commits": [],
            "add_only": True,
        },
        "engines": [
            {"name": "purl_verif driver", "path": "/verif/harness", "serves_properties": sorted(CHECKS),
             "kind_free_text": "Rust harness linking the real purl crate from /repo by path; workload generators + reference models + per-property online monitors on 16 worker threads; python3 orchestrator /verif/check builds it, runs it under a watchdog, applies known_findings.json, writes evidence"},
        ],
        "checks": checks,
        "notes": "Verdicts are three-valued (exit 0 held / 1 violation / 2 inconclusive). Four genuine defects were found and repaired by 'fix:' commits in /repo (see known_findings.json and DESIGN.md section 9).",
        "not_applicable": na,
    }
    with open(os.path.join(VERIF, "MANIFEST.json"), "w") as f:
        json.dump(m, f, indent=1)
        f.write("\n")


if __name__ == "__main__":
    main()
