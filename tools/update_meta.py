#!/usr/bin/env python3
"""Copies, for every seeded change, which checks caught it (from selftest.json) into its meta.json."""
import json
import os

VERIF = os.path.dirname(os.path.dirname(os.path.abspath(__file__)))
st = {r["name"]: r for r in json.load(open(os.path.join(VERIF, "selftest.json")))}
n = 0
for d in sorted(os.listdir(os.path.join(VERIF, "seeded"))):
    mp = os.path.join(VERIF, "seeded", d, "meta.json")
    if not os.path.exists(mp) or d not in st:
        continue
    meta = json.load(open(mp))
    res = st[d]["results"]
    meta["checks_run_against_it"] = sorted(res)
    meta["caught_by"] = sorted(p for p, x in res.items() if x["exit"] == 1)
    meta["how_run"] = "tools/selftest.py: scratch clone of /repo with patch.diff applied, scratch copy of /verif pointed at it, `check <Cxx> quick`"
    json.dump(meta, open(mp, "w"), indent=1, ensure_ascii=False)
    n += 1
print("updated", n)
