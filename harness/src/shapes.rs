//! The parameterised family of user-written `PurlShape + FromStr` implementations (C04, C14).
//! Behaviour is selected through a thread-local configuration (a `FromStr` implementation has
//! no other way to receive parameters); every call appends to a thread-local event log.

use std::borrow::Cow;
use std::cell::RefCell;
use std::collections::BTreeMap;
use std::str::FromStr;

use purl::{ParseError, PurlParts, PurlShape, SmallString};
use serde::{Deserialize, Serialize};

pub const H_FAIL: u16 = 1 << 0;
pub const H_CLEAR_NAME: u16 = 1 << 1;
pub const H_NS: u16 = 1 << 2;
pub const H_VER: u16 = 1 << 3;
pub const H_SUB: u16 = 1 << 4;
pub const H_EMPTY_QUAL: u16 = 1 << 5;
pub const H_VALID_QUAL: u16 = 1 << 6;
pub const H_CS_NONCANON: u16 = 1 << 7;
pub const H_CS_BAD: u16 = 1 << 8;
pub const HOOK_BITS: u16 = 9;

#[derive(Clone, Debug, PartialEq, Eq, Hash, PartialOrd, Ord, Serialize, Deserialize, Default)]
pub struct Cfg {
    pub conv_fails: bool,
    pub hook: u16,
    /// 0: reports the lower-cased type; 1: reports it upper-cased (valid, not canonical);
    /// 2: reports an invalid type string
    pub type_mode: u8,
    /// values written by the namespace / version / subpath rewrites
    pub values: [String; 3],
    /// unique id carried by injected errors
    pub id: u64,
    /// well-formed, not canonical checksum text written by H_CS_NONCANON ("" = default)
    #[serde(default)]
    pub cs_ok: String,
    /// ill-formed checksum text written by H_CS_BAD ("" = default)
    #[serde(default)]
    pub cs_bad: String,
}

pub const CS_OK_TEXTS: &[&str] = &["B:FF,a:00Ab", "b:00,a:11", "A:00", "a:FF", "sha256:AB,md5:00,SHA1:cd", ":00", "a:", "x:00,É:11", "sha3:256:ABCD", "a:b:00,a:00", EMPTY_TEXT];
/// Stands for the empty text (an empty `cs_ok` means "the default text"): a checksum the hook
/// sets to "" is an empty qualifier like any other and is dropped, not parsed.
pub const EMPTY_TEXT: &str = "<empty>";
pub const CS_BAD_TEXTS: &[&str] = &[
    "sha1:xyz", "sha1:00,sha1:11", "a:00,a:00", "a:0", "a", ",", "a:00,,b:11", "md5:00,MD5:11", "a:00,b:11,b:22", "a:00,", "é:00,É:11", "a:0g", "a:+a", "a:-1", "a: 0", "sha1:0x",
    // bare digests of the usual sizes (nothing may guess the algorithm)
    "0123456789abcdef0123456789abcdef", "0123456789abcdef0123456789abcdef01234567", "0123456789abcdef0123456789abcdef0123456789abcdef0123456789abcdef", "a:00,0123456789abcdef0123456789abcdef",
];

impl Cfg {
    pub fn cs_ok_text(&self) -> &str {
        if self.cs_ok.is_empty() {
            CS_OK_TEXTS[0]
        } else if self.cs_ok == EMPTY_TEXT {
            ""
        } else {
            &self.cs_ok
        }
    }

    pub fn cs_bad_text(&self) -> &str {
        if self.cs_bad.is_empty() {
            CS_BAD_TEXTS[0]
        } else {
            &self.cs_bad
        }
    }
}

#[derive(Clone, Debug, PartialEq, Eq, Default, Serialize, Deserialize)]
pub struct PartsSnap {
    pub ns: String,
    pub name: String,
    pub ver: String,
    pub quals: Vec<(String, String)>,
    pub sub: String,
}

impl PartsSnap {
    pub fn of(p: &PurlParts) -> PartsSnap {
        PartsSnap {
            ns: p.namespace.to_string(),
            name: p.name.to_string(),
            ver: p.version.to_string(),
            quals: p.qualifiers.iter().map(|(k, v)| (k.as_str().to_owned(), v.to_owned())).collect(),
            sub: p.subpath.to_string(),
        }
    }
}

#[derive(Clone, Debug, PartialEq, Eq)]
pub enum Event {
    Conv { arg: String, ok: bool },
    Finish { seen: PartsSnap, ok: bool },
}

thread_local! {
    static CFG: RefCell<Cfg> = RefCell::new(Cfg::default());
    static LOG: RefCell<Vec<Event>> = const { RefCell::new(Vec::new()) };
}

pub fn set_cfg(c: &Cfg) {
    CFG.with(|x| *x.borrow_mut() = c.clone());
    LOG.with(|l| l.borrow_mut().clear());
}

pub fn take_log() -> Vec<Event> {
    LOG.with(|l| std::mem::take(&mut *l.borrow_mut()))
}

#[derive(Debug)]
pub enum ShapeError {
    Parse(ParseError),
    Conv(u64),
    Hook(u64),
}

impl From<ParseError> for ShapeError {
    fn from(e: ParseError) -> Self {
        ShapeError::Parse(e)
    }
}

#[derive(Clone, Debug, PartialEq, Eq, Hash, PartialOrd, Ord)]
pub struct Shape {
    pub cfg: Cfg,
    pub ty: String,
}

impl Shape {
    pub fn new(cfg: &Cfg, ty: &str) -> Shape {
        Shape { cfg: cfg.clone(), ty: ty.to_string() }
    }
}

impl FromStr for Shape {
    type Err = ShapeError;

    fn from_str(s: &str) -> Result<Self, Self::Err> {
        let cfg = CFG.with(|c| c.borrow().clone());
        let ok = !cfg.conv_fails;
        LOG.with(|l| l.borrow_mut().push(Event::Conv { arg: s.to_string(), ok }));
        if ok {
            Ok(Shape { cfg, ty: s.to_string() })
        } else {
            Err(ShapeError::Conv(cfg.id))
        }
    }
}

pub const INVALID_TYPE: &str = "bad type!";

impl PurlShape for Shape {
    type Error = ShapeError;

    fn package_type(&self) -> Cow<str> {
        match self.cfg.type_mode {
            0 => Cow::Owned(self.ty.to_ascii_lowercase()),
            1 => Cow::Owned(self.ty.to_ascii_uppercase()),
            _ => Cow::Borrowed(INVALID_TYPE),
        }
    }

    fn finish(&mut self, parts: &mut PurlParts) -> Result<(), Self::Error> {
        let h = self.cfg.hook;
        let ok = h & H_FAIL == 0;
        LOG.with(|l| l.borrow_mut().push(Event::Finish { seen: PartsSnap::of(parts), ok }));
        if !ok {
            return Err(ShapeError::Hook(self.cfg.id));
        }
        if h & H_CLEAR_NAME != 0 {
            parts.name = SmallString::new();
        }
        if h & H_NS != 0 {
            parts.namespace = SmallString::from(self.cfg.values[0].as_str());
        }
        if h & H_VER != 0 {
            parts.version = SmallString::from(self.cfg.values[1].as_str());
        }
        if h & H_SUB != 0 {
            parts.subpath = SmallString::from(self.cfg.values[2].as_str());
        }
        if h & H_EMPTY_QUAL != 0 {
            // one key that sorts before "checksum" and one that sorts after it
            parts.qualifiers.insert("Emptied", "").expect("valid key");
            parts.qualifiers.insert("A.emptied", "").expect("valid key");
        }
        if h & H_VALID_QUAL != 0 {
            parts.qualifiers.insert("Hooked", "by hook & more").expect("valid key");
        }
        if h & H_CS_NONCANON != 0 {
            parts.qualifiers.insert("checksum", self.cfg.cs_ok_text()).expect("valid key");
        }
        if h & H_CS_BAD != 0 {
            parts.qualifiers.insert("CHECKSUM", self.cfg.cs_bad_text()).expect("valid key");
        }
        Ok(())
    }
}

/// The hook's edits, applied to a model of the parts (same order as above).
pub fn model_edit(cfg: &Cfg, seen: &PartsSnap) -> PartsSnap {
    let mut p = seen.clone();
    let h = cfg.hook;
    let mut q: BTreeMap<String, String> = p.quals.iter().cloned().collect();
    if h & H_CLEAR_NAME != 0 {
        p.name.clear();
    }
    if h & H_NS != 0 {
        p.ns = cfg.values[0].clone();
    }
    if h & H_VER != 0 {
        p.ver = cfg.values[1].clone();
    }
    if h & H_SUB != 0 {
        p.sub = cfg.values[2].clone();
    }
    if h & H_EMPTY_QUAL != 0 {
        q.insert("emptied".into(), String::new());
        q.insert("a.emptied".into(), String::new());
    }
    if h & H_VALID_QUAL != 0 {
        q.insert("hooked".into(), "by hook & more".into());
    }
    if h & H_CS_NONCANON != 0 {
        q.insert("checksum".into(), cfg.cs_ok_text().into());
    }
    if h & H_CS_BAD != 0 {
        q.insert("checksum".into(), cfg.cs_bad_text().into());
    }
    p.quals = q.into_iter().collect();
    p
}

/// The generic rules that run after the hook: Err(error rendering) or the final parts.
pub fn model_post(p: &PartsSnap) -> Result<PartsSnap, String> {
    if p.name.is_empty() {
        return Err("Parse(MissingRequiredField(Name))".into());
    }
    let mut out = p.clone();
    out.quals.retain(|(_, v)| !v.is_empty());
    for (k, v) in out.quals.iter_mut() {
        if k == "checksum" {
            match crate::model::checksum_parse(v) {
                Ok(m) => *v = crate::model::checksum_text(&m),
                Err(_) => return Err("Parse(InvalidQualifier)".into()),
            }
        }
    }
    Ok(out)
}

/// All members of the family: 2 x 2^9 x 3.
pub fn all_cfgs() -> Vec<Cfg> {
    let mut v = Vec::new();
    let mut id = 1000;
    for conv_fails in [false, true] {
        for hook in 0..(1u16 << HOOK_BITS) {
            for type_mode in 0..3u8 {
                id += 1;
                v.push(Cfg { conv_fails, hook, type_mode, values: Default::default(), id, cs_ok: String::new(), cs_bad: String::new() });
            }
        }
    }
    v
}
