//! G2 — component tuples and their legal spellings; G3 — single-fault injection.
//! Library independent: the expected parse of a spelling is the tuple it was made from.

use std::collections::BTreeMap;

use serde::{Deserialize, Serialize};

use crate::gen::{hostile_char, len_short, ALNUM, NON_ASCII, TITLECASE};
use crate::model::{self, ascii_lower, Comps};
use crate::rng::Rng;

#[derive(Clone, Debug, Serialize, Deserialize, PartialEq, Eq)]
pub struct Tuple {
    pub ty: String,
    pub ns: Vec<String>,
    pub name: String,
    pub ver: Option<String>,
    /// (key as drawn — letters may be upper-case, value non-empty); keys distinct ignoring case,
    /// never `checksum`.
    pub quals: Vec<(String, String)>,
    /// (algorithm: fixpoint of per-character lower-casing, without ','; bytes)
    pub checksum: Option<Vec<(String, Vec<u8>)>>,
    pub sub: Vec<String>,
}

impl Tuple {
    /// The components every parse of every spelling must report (type-agnostic PURL).
    pub fn comps(&self) -> Comps {
        let mut quals: BTreeMap<String, String> =
            self.quals.iter().map(|(k, v)| (ascii_lower(k), v.clone())).collect();
        if let Some(cs) = &self.checksum {
            let m: BTreeMap<String, String> = cs.iter().map(|(a, b)| (a.clone(), hex::encode(b))).collect();
            quals.insert("checksum".into(), model::checksum_text(&m));
        }
        Comps {
            ty: ascii_lower(&self.ty),
            ns: self.ns.clone(),
            name: self.name.clone(),
            ver: self.ver.clone(),
            quals: quals.into_iter().collect(),
            sub: self.sub.clone(),
        }
    }
}

// Freedoms (bit numbers) — the list of C02.
pub const F_TYPE_CASE: u32 = 0;
pub const F_KEY_CASE: u32 = 1;
pub const F_ALG_CASE: u32 = 2;
pub const F_HEX_CASE: u32 = 3;
pub const F_ESC_UPPER: u32 = 4;
pub const F_ESC_LOWER: u32 = 5;
pub const F_RAW_UTF8: u32 = 6;
pub const F_LEAD_SLASH: u32 = 7;
pub const F_NS_SLASH: u32 = 8;
pub const F_SUB_SLASH: u32 = 9;
pub const F_SUB_DOTS: u32 = 10;
pub const F_QUAL_ORDER: u32 = 11;
pub const F_EMPTY_QUAL: u32 = 12;
pub const F_RAW_AT: u32 = 13;
pub const F_RAW_Q: u32 = 14;
pub const F_RAW_HASH: u32 = 15;
pub const F_CHECKSUM_ORDER: u32 = 16;
pub const F_ESC_PLAIN: u32 = 17;
pub const N_FREEDOMS: u32 = 18;
pub const FREEDOM_NAMES: [&str; 18] = [
    "type-case", "key-case", "alg-case", "hex-case", "escape-upper-hex", "escape-lower-hex", "raw-utf8",
    "extra-leading-slash", "extra-namespace-slash", "extra-subpath-slash", "raw-dot-subpath-segments",
    "qualifier-order", "empty-valued-qualifier", "raw-at-left-of-separator", "raw-question-left-of-separator",
    "raw-hash-left-of-separator", "checksum-entry-order", "escaped-plain-character",
];

/// A spelling, kept in pieces so that G3 can damage exactly one of them.
#[derive(Clone, Debug, Serialize, Deserialize, PartialEq, Eq)]
pub struct Spelled {
    pub scheme: String,
    pub lead: String,
    pub ty: String,
    /// Encoded namespace pieces, "" for an extra slash.
    pub ns: Vec<String>,
    pub name: String,
    pub ver: Option<String>,
    /// `key=value` items, already encoded.
    pub items: Vec<String>,
    /// Encoded subpath pieces incl. "", ".", "..".
    pub sub: Option<Vec<String>>,
    /// Freedoms that actually manifested.
    pub used: u32,
}

impl Spelled {
    pub fn assemble(&self) -> String {
        let mut s = String::new();
        s.push_str(&self.scheme);
        s.push_str(&self.lead);
        s.push_str(&self.ty);
        s.push('/');
        if !self.ns.is_empty() {
            s.push_str(&self.ns.join("/"));
            s.push('/');
        }
        s.push_str(&self.name);
        if let Some(v) = &self.ver {
            s.push('@');
            s.push_str(v);
        }
        if !self.items.is_empty() {
            s.push('?');
            s.push_str(&self.items.join("&"));
        }
        if let Some(sub) = &self.sub {
            s.push('#');
            s.push_str(&sub.join("/"));
        }
        s
    }
}

// ---------------------------------------------------------------------------------------------
// Tuple generation

fn comp_char(r: &mut Rng, hostility: usize) -> char {
    if r.below(100) < hostility {
        hostile_char(r)
    } else {
        *r.pick(ALNUM) as char
    }
}

/// A non-empty component string; `no_slash` for namespace / subpath segments.
/// A component whose UTF-8 length sits at a power of two (255..=257, 1023..=1025, 4095..=4097,
/// rarely 65535..=65537 bytes), plain text with a character that needs an escape, or a
/// multi-byte character, straddling the boundary: 8- and 16-bit length arithmetic, fixed
/// buffers and chunked encoders show there and nowhere else.
pub fn pow2_len_string(r: &mut Rng, no_slash: bool) -> String {
    let base = if r.chance(1, 20) { 65_536usize } else { *r.pick(&[256usize, 1024, 4096]) };
    let target = base + r.below(3) - 1;
    let special = *r.pick(&[' ', '%', 'é', '中', '😀', '+', '&', '=', '@', '?', '#', ':', 'A']);
    let at = base.saturating_sub(1 + r.below(4));
    let mut s = String::with_capacity(target + 4);
    while s.len() < target {
        if s.len() >= at && !s.contains(special) && s.len() + special.len_utf8() <= target + 1 {
            s.push(special);
        } else {
            s.push(*r.pick(b"abcxyz019") as char);
        }
    }
    let _ = no_slash;
    s
}

pub fn comp_string(r: &mut Rng, no_slash: bool) -> String {
    if r.chance(1, 12) {
        return crate::gen::boundary_string(r, no_slash);
    }
    if r.chance(1, 250) {
        return pow2_len_string(r, no_slash);
    }
    let (lo, hi) = len_short(r);
    let n = r.range(lo, hi);
    let hostility = *r.pick(&[0usize, 10, 35, 35, 70, 100]);
    let mut s = String::new();
    for _ in 0..n {
        if hostility > 0 && r.chance(1, 25) {
            // literal text that looks like an escape (its '%' must be written as %25)
            let l = *r.pick(crate::gen::ESCAPE_LOOKALIKES);
            if !(no_slash && l.contains('/')) {
                s.push_str(l);
                continue;
            }
        }
        if r.chance(1, 30) {
            let l = crate::gen::dict_token_cased(r);
            if !(no_slash && l.contains('/')) {
                s.push_str(&l);
                continue;
            }
        }
        let mut c = comp_char(r, hostility);
        if no_slash && c == '/' {
            c = *r.pick(&['a', '\\', '%', '.']);
        }
        s.push(c);
    }
    s
}

/// Type-like names from the wild: registries, brand spellings, other spec types.
pub const TYPE_VOCABULARY: &[&str] = &[
    "crates.io", "rubygems", "packagist", "pypi.org", "npmjs", "nuget.org", "maven-central", "go", "golang.org", "github", "bitbucket", "composer", "cocoapods", "CocoaPods", "GitHub", "generic", "deb",
    "rpm", "docker", "oci", "hex", "conan", "conda", "cran", "swift", "pub", "huggingface", "mlflow", "qpkg", "swid", "alpm", "apk", "bitnami", "cpan", "hackage", "luarocks", "Crates.IO", "RubyGems",
];

pub fn gen_type(r: &mut Rng) -> String {
    if r.chance(1, 10) {
        return r.pick(TYPE_VOCABULARY).to_string();
    }
    let n = if r.chance(1, 20) { r.range(20, 40) } else { r.range(1, 8) };
    let mut s = String::new();
    s.push(*r.pick(b"abcdefghijklmnopqrstuvwxyzABCDEFGHIJKLMNOPQRSTUVWXYZ") as char);
    for _ in 1..n {
        s.push(*r.pick(b"abcdefghijklmnopqrstuvwxyzABCDEFGHIJKLMNOPQRSTUVWXYZ0123456789.+-") as char);
    }
    s
}

pub fn gen_key(r: &mut Rng) -> String {
    let n = if r.chance(1, 15) { r.range(20, 40) } else { r.range(1, 8) };
    let mut s = String::new();
    s.push(*r.pick(b"abcdefghijklmnopqrstuvwxyzABCDEFGHIJKLMNOPQRSTUVWXYZ") as char);
    for _ in 1..n {
        s.push(*r.pick(b"abcdefghijklmnopqrstuvwxyzABCDEFGHIJKLMNOPQRSTUVWXYZ0123456789._-") as char);
    }
    s
}

/// Keys that some part of the library knows by name.
pub const WELL_KNOWN_KEYS: &[&str] = &["repository_url", "download_url", "vcs_url", "file_name", "classifier", "type", "platform", "arch", "os", "distro", "epoch"];

/// A valid key one small edit away from `k`: another of `_`, `-`, `.` in place of one (or
/// every) separator, a character dropped, doubled or appended, or a neighbouring letter.
/// Keys that differ this little must still be different keys.
pub fn near_key(r: &mut Rng, k: &str) -> String {
    let b: Vec<char> = k.chars().collect();
    if b.is_empty() || !b.iter().all(|c| c.is_ascii_alphanumeric() || "._-".contains(*c)) {
        return gen_key(r);
    }
    let seps: Vec<usize> = (1..b.len()).filter(|&i| "._-".contains(b[i])).collect();
    let mut o = b.clone();
    match r.below(7) {
        0 | 1 if !seps.is_empty() => {
            let i = *r.pick(&seps);
            o[i] = *r.pick(&['_', '-', '.']);
        },
        2 if !seps.is_empty() => {
            let c = *r.pick(&['_', '-', '.']);
            for i in seps {
                o[i] = c;
            }
        },
        3 if b.len() > 1 => {
            o.remove(r.range(1, b.len() - 1));
        },
        4 => {
            let i = r.below(b.len());
            o.insert(i + 1, b[i]);
        },
        5 => o.push(*r.pick(&['s', '_', '-', '.', '1', '0'])),
        _ => {
            let i = r.below(b.len());
            if b[i].is_ascii_alphabetic() {
                o[i] = match b[i] {
                    'z' => 'y',
                    'Z' => 'Y',
                    c => (c as u8 + 1) as char,
                };
            } else if i > 0 {
                o[i] = '_';
            }
        },
    }
    o.into_iter().collect()
}

/// A key for a collection that already holds `existing`: fresh, well-known, or a near miss of
/// a key that is already there / of a well-known key.
pub fn gen_key_among(r: &mut Rng, existing: &[String]) -> String {
    match r.below(12) {
        0 => r.pick(WELL_KNOWN_KEYS).chars().map(|c| if r.chance(1, 4) { c.to_ascii_uppercase() } else { c }).collect(),
        1 => {
            let k = r.pick(WELL_KNOWN_KEYS).to_string();
            near_key(r, &k)
        },
        2 | 3 if !existing.is_empty() => {
            let k = r.pick(existing).clone();
            near_key(r, &k)
        },
        _ => gen_key(r),
    }
}

/// An algorithm name that is a fixpoint of per-character lower-casing and has no ','.
/// Algorithm names related by prefix (sorting "sha2" before "sha256" needs the name, not the
/// formatted entry), and Greek names whose last letter is a sigma (context-sensitive
/// lower-casing would produce a final sigma).
pub const ALG_VOCABULARY: &[&str] = &[
    "sha", "sha1", "sha2", "sha256", "sha-1", "sha512", "sha512-256", "sha3", "sha3-512", "md5", "md5.1", "blake2", "blake2b",
    "blake2b-256", "1", "", "a", "a0", "a:", "ασ", "οδοσ", "σ", "ασα",
    // distinct names that coincide once upper-cased (a case-insensitive sort would tie them)
    "ſha1", "gross", "groß", "ǆ", "ᾳ", "αι",
    // code-point order and UTF-16 code-unit order disagree on these (BMP above the surrogates
    // against supplementary planes)
    "\u{ff76}", "\u{1f600}", "\u{e000}", "\u{10000}", "\u{ffff}", "\u{10ffff}", "a\u{fb01}", "a\u{1d7d8}",
];

/// A lower-case algorithm name whose UTF-8 length sits at a power of two (15..=18, 31..=34,
/// 63..=66, 127..=130, 255..=258 bytes) and which contains letters whose other-case spelling
/// has a different UTF-8 length (`ⱥ` 3 bytes / `Ⱥ` 2, `k` 1 / Kelvin sign 3, `ω` 2 / Ohm sign
/// 3, `å` 2 / Angstrom sign 3): a length limit or a buffer sized before lower-casing shows.
pub fn edge_len_alg(r: &mut Rng) -> String {
    let target = *r.pick(&[16usize, 32, 64, 128, 256]) + r.below(4) - 1;
    let mut s = String::new();
    let specials = ['ⱥ', 'ⱦ', 'k', 'ω', 'å'];
    let n_special = r.range(1, 3);
    let mut at: Vec<usize> = (0..n_special).map(|_| r.below(target)).collect();
    at.sort_unstable();
    while s.len() < target {
        if at.first().map_or(false, |&p| s.len() >= p) {
            at.remove(0);
            let c = *r.pick(&specials);
            if s.len() + c.len_utf8() <= target {
                s.push(c);
                continue;
            }
        }
        s.push(*r.pick(b"abcdefghijlmnopqrstuvwxyz0123456789-") as char);
    }
    debug_assert_eq!(model::lower(&s), s);
    s
}

/// Names of one family: a stem, a number, an optional tail. Numbers of different magnitude
/// under one stem separate text order from "natural" order (`x9` / `x10` / `x5y`), and the
/// well-known hash names carry sizes a special case could key on.
pub fn family_alg(r: &mut Rng) -> String {
    let stem = *r.pick(&["sha", "x", "a", "md", "blake", "sha-", "sha3-", "sha512-"]);
    let num = *r.pick(&["1", "2", "5", "9", "10", "16", "100", "224", "256", "384", "512", "1024"]);
    let tail = *r.pick(&["", "", "", "y", "b", "-256", "/256", ".1"]);
    format!("{stem}{num}{tail}")
}

pub fn gen_alg(r: &mut Rng) -> String {
    if r.chance(1, 3) {
        return r.pick(ALG_VOCABULARY).to_string();
    }
    if r.chance(1, 6) {
        return family_alg(r);
    }
    if r.chance(1, 12) {
        return edge_len_alg(r);
    }
    let n = r.range(0, 8);
    let mut s = String::new();
    for _ in 0..n {
        let c = match r.below(20) {
            0 => ':',
            1 => *r.pick(&['é', 'æ', 'ǆ', 'ω', 'σ', 'ß', '中', 'ᾀ', 'ᾳ']),
            2 => *r.pick(&['-', '_', '.', '/', ' ', '=', '&', '+', '@', '?', '#', '%']),
            3 => *r.pick(b"0123456789") as char,
            _ => *r.pick(b"abcdefghijklmnopqrstuvwxyz") as char,
        };
        s.push(c);
    }
    debug_assert_eq!(model::lower(&s), s);
    s
}

pub fn gen_checksum(r: &mut Rng, max: usize) -> Vec<(String, Vec<u8>)> {
    let n = r.range(1, max.max(1));
    let mut out: Vec<(String, Vec<u8>)> = Vec::new();
    for _ in 0..n {
        let a = gen_alg(r);
        if out.iter().any(|(x, _)| *x == a) {
            continue;
        }
        let len = *r.pick(&[0usize, 1, 2, 4, 16, 20, 32, 64]);
        let bytes: Vec<u8> = (0..len).map(|_| r.below(256) as u8).collect();
        out.push((a, bytes));
    }
    out
}

/// `known`: draw the type from the seven built-in names (random case) instead of a random one.
pub fn gen_tuple(r: &mut Rng, known: bool) -> Tuple {
    let ty = if known {
        let t = *r.pick(&model::KNOWN_TYPES);
        t.chars().map(|c| if r.coin() { c.to_ascii_uppercase() } else { c }).collect()
    } else {
        gen_type(r)
    };
    let mut nns = *r.pick(&[0usize, 0, 1, 1, 2, 3, 6]);
    if ascii_lower(&ty) == "maven" && nns == 0 {
        nns = 1;
    }
    let mut ns: Vec<String> = (0..nns).map(|_| comp_string(r, true)).collect();
    let mut name = comp_string(r, false);
    if known && r.chance(1, 6) {
        // namespace and name as they look in that ecosystem
        let (rns, rname) = crate::gen::realistic_ns_name(r, &ascii_lower(&ty));
        if !(ascii_lower(&ty) == "maven" && rns.is_empty()) {
            ns = rns;
            name = rname;
        }
    }
    let ver = if r.chance(3, 5) { Some(if r.chance(1, 5) { r.pick(crate::gen::VERSION_VOCABULARY).to_string() } else { comp_string(r, false) }) } else { None };
    // (rarely: a number of qualifiers around 2^8; more often a few dozen)
    let nq = if r.chance(1, 400) {
        r.range(254, 259)
    } else if r.chance(1, 25) {
        r.range(31, 70)
    } else {
        *r.pick(&[0usize, 0, 1, 2, 3, 8, 12, 24])
    };
    let mut quals: Vec<(String, String)> = Vec::new();
    for _ in 0..nq {
        let have: Vec<String> = quals.iter().map(|(k, _)| k.clone()).collect();
        let k = gen_key_among(r, &have);
        let lk = ascii_lower(&k);
        if lk == "checksum" || quals.iter().any(|(x, _)| ascii_lower(x) == lk) {
            continue;
        }
        let voc = crate::gen::key_vocabulary(&lk);
        let v = if r.chance(1, 3) && (voc.len() > 4 || r.chance(1, 4)) { r.pick(voc).to_string() } else { comp_string(r, false) };
        quals.push((k, v));
    }
    // the same text in two places (anything remembered per text rather than per place shows):
    // one time in twelve a component, often a long one, is copied into another
    let mut ver = ver;
    if r.chance(1, 12) {
        let text = if r.coin() { format!("{}+&=@?#%:/ {}", comp_string(r, true), "x".repeat(r.range(20, 40))) } else { name.clone() };
        let no_slash: String = text.replace('/', "-");
        let spots = r.below(16) | 1 << r.below(4);
        if spots & 1 != 0 {
            name = text.clone();
        }
        if spots & 2 != 0 {
            ver = Some(text.clone());
        }
        if spots & 4 != 0 {
            if let Some(q) = quals.first_mut() {
                q.1 = text.clone();
            } else {
                quals.push(("tag".into(), text.clone()));
            }
        }
        if spots & 8 != 0 && !ns.is_empty() {
            ns[0] = no_slash.clone();
        }
    }
    let checksum = if r.chance(1, 4) { Some(gen_checksum(r, 5)) } else { None };
    let copy_to_sub = r.chance(1, 30);
    let nsub = *r.pick(&[0usize, 0, 1, 2, 4]);
    let mut sub = Vec::new();
    for _ in 0..nsub {
        let s = comp_string(r, true);
        if s == "." || s == ".." {
            continue;
        }
        sub.push(s);
    }
    if copy_to_sub {
        let t = name.replace('/', "-");
        if t != "." && t != ".." && !t.is_empty() {
            sub.push(t);
        }
    }
    Tuple { ty, ns, name, ver, quals, checksum, sub }
}

// ---------------------------------------------------------------------------------------------
// Spelling

#[derive(Clone, Copy, PartialEq, Eq)]
enum Where {
    NsSeg,
    Name,
    Version,
    QualValue,
    SubSeg,
}

struct SpellCtx {
    has_ver: bool,
    has_quals: bool,
    has_sub: bool,
    mask: u32,
    used: u32,
}

fn on(mask: u32, f: u32) -> bool {
    mask & (1 << f) != 0
}

impl SpellCtx {
    /// May `c` appear raw at this place without changing the structure?
    fn raw_allowed(&mut self, c: char, w: Where) -> Option<u32> {
        // Some(freedom bit + 1) when allowed because of a listed separator freedom; Some(0) plain.
        match c {
            '%' => None,
            '/' => match w {
                Where::Name => None,
                Where::Version | Where::QualValue => Some(0),
                Where::NsSeg | Where::SubSeg => None, // cannot occur
            },
            '@' => match w {
                Where::NsSeg | Where::Name => {
                    if self.has_ver && on(self.mask, F_RAW_AT) {
                        Some(F_RAW_AT + 1)
                    } else {
                        None
                    }
                },
                Where::Version => None,
                Where::QualValue | Where::SubSeg => {
                    if on(self.mask, F_RAW_AT) {
                        Some(F_RAW_AT + 1)
                    } else {
                        None
                    }
                },
            },
            '?' => match w {
                Where::NsSeg | Where::Name | Where::Version => {
                    if self.has_quals && on(self.mask, F_RAW_Q) {
                        Some(F_RAW_Q + 1)
                    } else {
                        None
                    }
                },
                Where::QualValue => None,
                Where::SubSeg => {
                    if on(self.mask, F_RAW_Q) {
                        Some(F_RAW_Q + 1)
                    } else {
                        None
                    }
                },
            },
            '#' => match w {
                Where::SubSeg => None,
                _ => {
                    if self.has_sub && on(self.mask, F_RAW_HASH) {
                        Some(F_RAW_HASH + 1)
                    } else {
                        None
                    }
                },
            },
            '&' => match w {
                Where::QualValue => None,
                _ => Some(0),
            },
            _ => Some(0),
        }
    }

    fn esc(&mut self, r: &mut Rng, c: char, out: &mut String) {
        let mut buf = [0u8; 4];
        for b in c.encode_utf8(&mut buf).bytes() {
            let upper = if on(self.mask, F_ESC_LOWER) && on(self.mask, F_ESC_UPPER) {
                r.coin()
            } else {
                !on(self.mask, F_ESC_LOWER)
            };
            let s = if upper { format!("%{b:02X}") } else { format!("%{b:02x}") };
            if s.bytes().any(|x| x.is_ascii_lowercase()) {
                self.used |= 1 << F_ESC_LOWER;
            } else if s.bytes().any(|x| x.is_ascii_uppercase()) {
                self.used |= 1 << F_ESC_UPPER;
            }
            out.push_str(&s);
        }
    }

    fn enc(&mut self, r: &mut Rng, s: &str, w: Where) -> String {
        let mut out = String::new();
        // per-string raw probability so that fully raw and fully escaped strings both occur
        let p_raw = *r.pick(&[100usize, 100, 90, 50, 0]);
        for c in s.chars() {
            match self.raw_allowed(c, w) {
                None => self.esc(r, c, &mut out),
                Some(tag) => {
                    let want_raw = r.below(100) < p_raw;
                    let may_raw_utf8 = c.is_ascii() || on(self.mask, F_RAW_UTF8);
                    // ASCII that the canonical form would not escape may still be written escaped
                    let may_escape_plain = on(self.mask, F_ESC_PLAIN) || !c.is_ascii_alphanumeric();
                    if (want_raw || !may_escape_plain) && may_raw_utf8 {
                        out.push(c);
                        if tag > 0 {
                            self.used |= 1 << (tag - 1);
                        }
                        if !c.is_ascii() {
                            self.used |= 1 << F_RAW_UTF8;
                        }
                    } else {
                        if c.is_ascii_alphanumeric() {
                            self.used |= 1 << F_ESC_PLAIN;
                        }
                        self.esc(r, c, &mut out);
                    }
                },
            }
        }
        out
    }
}

fn vary_case(r: &mut Rng, s: &str, enabled: bool, used: &mut u32, bit: u32) -> String {
    if !enabled {
        return s.to_string();
    }
    s.chars()
        .map(|c| {
            if c.is_ascii_alphabetic() && r.coin() {
                let f = if c.is_ascii_lowercase() { c.to_ascii_uppercase() } else { c.to_ascii_lowercase() };
                *used |= 1 << bit;
                f
            } else {
                c
            }
        })
        .collect()
}

/// Case variant of a lower-case algorithm: ASCII letters flipped, plus a few non-ASCII letters
/// with a one-to-one upper/title-case partner whose per-character lower-casing gives back the
/// original.
fn vary_alg(r: &mut Rng, a: &str, enabled: bool, used: &mut u32) -> String {
    if !enabled {
        return a.to_string();
    }
    a.chars()
        .map(|c| {
            if !r.coin() {
                return c;
            }
            let v = match c {
                'a'..='z' => c.to_ascii_uppercase(),
                'é' => 'É',
                'æ' => 'Æ',
                'ǆ' => *r.pick(&['ǅ', 'Ǆ']),
                'ω' => 'Ω',
                'σ' => 'Σ',
                'α' => 'Α',
                'ο' => 'Ο',
                'δ' => 'Δ',
                'ᾀ' => 'ᾈ',
                'ᾳ' => 'ᾼ',
                // other-case spellings of a different UTF-8 length
                'ⱥ' => 'Ⱥ',
                'ⱦ' => 'Ⱦ',
                'å' => *r.pick(&['Å', '\u{212B}']),
                _ => c,
            };
            // (ASCII k and Greek omega have a second upper-case spelling: Kelvin and Ohm signs)
            let v = match v {
                'K' if r.chance(1, 3) => '\u{212A}',
                'Ω' if r.chance(1, 3) => '\u{2126}',
                v => v,
            };
            if v != c {
                debug_assert_eq!(model::lower(&v.to_string()), c.to_string());
                *used |= 1 << F_ALG_CASE;
            }
            v
        })
        .collect()
}

/// One spelling of `t`. `mask` selects the freedoms that may be used.
pub fn spell(r: &mut Rng, t: &Tuple, mask: u32) -> Spelled {
    let mut cx = SpellCtx {
        has_ver: t.ver.is_some(),
        has_quals: !t.quals.is_empty() || t.checksum.is_some(),
        has_sub: !t.sub.is_empty(),
        mask,
        used: 0,
    };
    let mut used = 0u32;
    let lead = if on(mask, F_LEAD_SLASH) {
        let n = r.range(0, 3);
        if n > 0 {
            used |= 1 << F_LEAD_SLASH;
        }
        "/".repeat(n)
    } else {
        String::new()
    };
    let ty = vary_case(r, &t.ty, on(mask, F_TYPE_CASE), &mut used, F_TYPE_CASE);

    // namespace pieces
    let mut ns = Vec::new();
    if !t.ns.is_empty() {
        let extra = |r: &mut Rng, ns: &mut Vec<String>, used: &mut u32| {
            if on(mask, F_NS_SLASH) {
                for _ in 0..*r.pick(&[0usize, 0, 1, 2]) {
                    ns.push(String::new());
                    *used |= 1 << F_NS_SLASH;
                }
            }
        };
        extra(r, &mut ns, &mut used);
        for seg in &t.ns {
            ns.push(cx.enc(r, seg, Where::NsSeg));
            extra(r, &mut ns, &mut used);
        }
    }
    let name = cx.enc(r, &t.name, Where::Name);
    let ver = t.ver.as_ref().map(|v| cx.enc(r, v, Where::Version));

    // qualifier items
    let mut items: Vec<String> = Vec::new();
    for (k, v) in &t.quals {
        let k = vary_case(r, k, on(mask, F_KEY_CASE), &mut used, F_KEY_CASE);
        items.push(format!("{k}={}", cx.enc(r, v, Where::QualValue)));
    }
    if let Some(cs) = &t.checksum {
        let mut entries: Vec<String> = Vec::new();
        for (a, b) in cs {
            let a = vary_alg(r, a, on(mask, F_ALG_CASE), &mut used);
            let h = vary_case(r, &hex::encode(b), on(mask, F_HEX_CASE), &mut used, F_HEX_CASE);
            entries.push(format!("{a}:{h}"));
        }
        if on(mask, F_CHECKSUM_ORDER) && entries.len() > 1 {
            let before = entries.clone();
            r.shuffle(&mut entries);
            if entries != before {
                used |= 1 << F_CHECKSUM_ORDER;
            }
        }
        let text = entries.join(",");
        let k = vary_case(r, "checksum", on(mask, F_KEY_CASE), &mut used, F_KEY_CASE);
        items.push(format!("{k}={}", cx.enc(r, &text, Where::QualValue)));
    }
    if on(mask, F_EMPTY_QUAL) && cx.has_quals {
        for _ in 0..*r.pick(&[0usize, 1, 1, 2]) {
            let k = gen_key(r);
            let lk = ascii_lower(&k);
            if lk == "checksum" || t.quals.iter().any(|(x, _)| ascii_lower(x) == lk) {
                continue;
            }
            if items.iter().any(|i| ascii_lower(i.split('=').next().unwrap()) == lk) {
                continue;
            }
            items.push(format!("{k}="));
            used |= 1 << F_EMPTY_QUAL;
        }
    }
    if on(mask, F_QUAL_ORDER) && items.len() > 1 {
        r.shuffle(&mut items);
        used |= 1 << F_QUAL_ORDER;
    }

    // subpath pieces
    let sub = if t.sub.is_empty() {
        None
    } else {
        let mut pieces = Vec::new();
        let extra = |r: &mut Rng, pieces: &mut Vec<String>, used: &mut u32| {
            if on(mask, F_SUB_SLASH) {
                for _ in 0..*r.pick(&[0usize, 0, 1, 2]) {
                    pieces.push(String::new());
                    *used |= 1 << F_SUB_SLASH;
                }
            }
            if on(mask, F_SUB_DOTS) {
                for _ in 0..*r.pick(&[0usize, 0, 1, 2]) {
                    pieces.push(r.pick(&[".", ".."]).to_string());
                    *used |= 1 << F_SUB_DOTS;
                }
            }
        };
        extra(r, &mut pieces, &mut used);
        for seg in &t.sub {
            pieces.push(cx.enc(r, seg, Where::SubSeg));
            extra(r, &mut pieces, &mut used);
        }
        Some(pieces)
    };
    Spelled { scheme: "pkg:".into(), lead, ty, ns, name, ver, items, sub, used: used | cx.used }
}

/// The plain canonical-looking spelling (no freedoms used) — handy as a base for fault injection.
pub fn random_mask(r: &mut Rng) -> u32 {
    match r.below(10) {
        0 => 0,
        1 => (1 << N_FREEDOMS) - 1,
        _ => (r.next() as u32) & ((1 << N_FREEDOMS) - 1),
    }
}

// ---------------------------------------------------------------------------------------------
// G3 — single-fault injection

/// Kinds of fault; the expected generic error variant is given by `expected_error`.
pub const FAULT_KINDS: &[&str] = &[
    "scheme-missing",
    "scheme-other",
    "scheme-no-colon",
    "scheme-char-before",
    "no-type",
    "type-invalid-char",
    "type-percent-encoded",
    "no-name-no-slash",
    "no-name-empty",
    "qual-no-eq",
    "qual-key-empty",
    "qual-key-invalid",
    "qual-key-encoded",
    "qual-dup-key",
    "utf8-namespace",
    "utf8-name",
    "utf8-version",
    "utf8-qualifier",
    "utf8-subpath",
    "slash-namespace",
    "slash-subpath",
    "checksum-no-colon",
    "checksum-odd",
    "checksum-nonhex",
    "checksum-dup-alg",
    "checksum-stray-comma",
    "checksum-several-faults",
];

pub fn expected_error(kind: &str) -> &'static str {
    match kind {
        k if k.starts_with("scheme") => "UnsupportedUrlScheme",
        "no-type" => "MissingRequiredField(PackageType)",
        "type-invalid-char" | "type-percent-encoded" => "InvalidPackageType",
        "no-name-no-slash" | "no-name-empty" => "MissingRequiredField(Name)",
        k if k.starts_with("qual-") => "InvalidQualifier",
        k if k.starts_with("utf8-") => "InvalidEscape",
        k if k.starts_with("slash-") => "InvalidEscape",
        k if k.starts_with("checksum-") => "InvalidQualifier",
        _ => unreachable!("unknown fault kind"),
    }
}

pub const BAD_UTF8: &[&str] = &[
    "%80", "%BF", "%C3", "%E4%B8", "%F0%9F%98", "%C0%AF", "%C1%81", "%E0%80%AF", "%F0%80%80%AF", "%ED%A0%80",
    "%ED%BF%BF", "%F4%90%80%80", "%F5%80%80%80", "%FE", "%FF", "%C3%28", "%E2%82%28", "%F8%88%80%80%80",
];

fn bad_utf8(r: &mut Rng) -> String {
    let s = *r.pick(BAD_UTF8);
    let s = if r.coin() { s.to_ascii_lowercase() } else { s.to_string() };
    match r.below(3) {
        0 => s,
        1 => format!("{s}a"), // truncated sequence followed by ASCII
        _ => format!("a{s}"),
    }
}

fn insert_at(r: &mut Rng, host: &str, what: &str) -> String {
    // Insert at a character boundary of the *decoded* text: never inside a %XX escape and
    // never between two adjacent escapes (they may be the bytes of one character).
    let mut positions = vec![0usize];
    let b = host.as_bytes();
    let is_esc = |i: usize| i + 2 < b.len() && b[i] == b'%' && b[i + 1].is_ascii_hexdigit() && b[i + 2].is_ascii_hexdigit();
    let mut i = 0;
    while i < b.len() {
        if is_esc(i) {
            while i < b.len() && is_esc(i) {
                i += 3;
            }
        } else {
            i += 1;
            while i < b.len() && !host.is_char_boundary(i) {
                i += 1;
            }
        }
        positions.push(i.min(b.len()));
    }
    let p = *r.pick(&positions);
    format!("{}{}{}", &host[..p], what, &host[p..])
}

/// Inject the fault `kind` into a spelling of `t`. Returns None when the fault does not apply to
/// this tuple (e.g. no namespace to damage). The result has exactly that one defect.
pub fn inject(r: &mut Rng, t: &Tuple, sp: &Spelled, kind: &str) -> Option<String> {
    let mut s = sp.clone();
    match kind {
        "scheme-missing" => {
            s.scheme = String::new();
            if s.lead.is_empty() && ascii_lower(&s.ty) == "pkg" {
                return None;
            }
        },
        "scheme-other" => s.scheme = r.pick(&["http:", "purl:", "pkgx:", "pk:", "pkg;", "pkg\u{FF1A}", "p%6Bg:", "p\u{212A}g:", "P\u{212A}G:", "\u{FF50}kg:", "pk\u{261}:", "\u{FF50}\u{FF4B}\u{FF47}:", "pkg\u{2236}", "pkg\u{FE55}", "p\u{1E33}g:", "pkg\u{0}:", "pkgs:", "pkg+x:", "%70kg:"]).to_string(),
        "scheme-no-colon" => s.scheme = "pkg".into(),
        "scheme-char-before" => {
            let c = if r.coin() { ' ' } else { hostile_char(r) };
            s.scheme = format!("{c}pkg:");
        },
        "no-type" => {
            // whole path empty
            let mut o = String::from("pkg:");
            o.push_str(&sp.lead);
            if !sp.items.is_empty() {
                o.push('?');
                o.push_str(&sp.items.join("&"));
            }
            if let Some(sub) = &sp.sub {
                o.push('#');
                o.push_str(&sub.join("/"));
            }
            return Some(o);
        },
        "type-invalid-char" => {
            let bad = *r.pick(&[' ', '@', '!', '_', '~', '*', ':', '=', '&', ',', 'é', '"', '\\', '\0', '$']);
            let p = r.below(s.ty.len() + 1);
            s.ty.insert(p, bad);
        },
        "type-percent-encoded" => {
            let p = r.below(s.ty.len());
            let c = s.ty.as_bytes()[p];
            s.ty = format!("{}%{:02X}{}", &s.ty[..p], c, &s.ty[p + 1..]);
        },
        "no-name-no-slash" => {
            // nothing after the type at all
            let mut o = format!("pkg:{}{}", sp.lead, sp.ty);
            if !sp.items.is_empty() {
                o.push('?');
                o.push_str(&sp.items.join("&"));
            }
            if let Some(sub) = &sp.sub {
                o.push('#');
                o.push_str(&sub.join("/"));
            }
            return Some(o);
        },
        "no-name-empty" => {
            if ascii_lower(&t.ty) == "maven" && t.ns.is_empty() {
                return None;
            }
            s.name = String::new();
        },
        "qual-no-eq" => {
            let item = crate::gen::mixed_string(r, 1, 6, 0);
            let p = r.below(s.items.len() + 1);
            s.items.insert(p, item);
        },
        "qual-key-empty" => {
            let p = r.below(s.items.len() + 1);
            s.items.insert(p, "=v".into());
        },
        "qual-key-invalid" => {
            // incl. non-ASCII digits / numerals / letters, which only look like key characters
            let bad = *r.pick(&[' ', '!', '@', '/', ':', '+', ',', 'é', '~', '*', '"', '$', '\0', '[', '²', '٣', '１', 'Ⅷ', 'ª', 'ǅ', '\u{212A}']);
            let k = gen_key(r);
            let p = r.below(k.len() + 1);
            let mut k2 = k.clone();
            k2.insert(p, bad);
            let at = r.below(s.items.len() + 1);
            s.items.insert(at, format!("{k2}=v"));
        },
        "qual-key-encoded" => {
            let k = gen_key(r);
            let p = r.below(k.len());
            let c = k.as_bytes()[p];
            let hexed = if r.coin() { format!("%{c:02X}") } else { format!("%{c:02x}") };
            let at = r.below(s.items.len() + 1);
            s.items.insert(at, format!("{}{}{}=v", &k[..p], hexed, &k[p + 1..]));
        },
        "qual-dup-key" => {
            // repeat an existing non-empty-valued key (or a fresh pair) in another case
            let (k, _) = match t.quals.first() {
                Some(kv) => kv.clone(),
                None => {
                    let k = gen_key(r);
                    let lk = ascii_lower(&k);
                    // the key must be new: sharing it with an empty-valued item would be the
                    // unspecified "duplicate with one empty value" case, not this fault
                    if lk == "checksum" || s.items.iter().any(|i| ascii_lower(i.split('=').next().unwrap()) == lk) {
                        return None;
                    }
                    s.items.push(format!("{k}=x"));
                    (k, "x".into())
                },
            };
            // (when the spelling carries a checksum, the repeated key is sometimes that one: a
            // second, well-formed checksum with another algorithm)
            if t.checksum.is_some() && r.chance(1, 3) {
                let k2: String = "checksum".chars().map(|c| if r.coin() { c.to_ascii_uppercase() } else { c }).collect();
                let at = r.below(s.items.len() + 1);
                s.items.insert(at, format!("{k2}=zz9:00"));
                return Some(s.assemble());
            }
            let k2: String = k.chars().map(|c| if r.coin() { c.to_ascii_uppercase() } else { c.to_ascii_lowercase() }).collect();
            if r.chance(1, 4) {
                // three occurrences: non-empty, empty, non-empty (the empty one must not "re-arm" the key)
                s.items.push(format!("{k}="));
                s.items.push(format!("{k2}=y"));
            } else {
                let at = r.below(s.items.len() + 1);
                s.items.insert(at, format!("{k2}=y"));
            }
        },
        "utf8-namespace" => {
            if s.ns.iter().all(|p| p.is_empty()) {
                return None;
            }
            let idx: Vec<usize> = (0..s.ns.len()).filter(|i| !s.ns[*i].is_empty()).collect();
            let i = *r.pick(&idx);
            s.ns[i] = { let bad = bad_utf8(r); insert_at(r, &s.ns[i].clone(), &bad) };
        },
        "utf8-name" => s.name = { let bad = bad_utf8(r); insert_at(r, &s.name.clone(), &bad) },
        "utf8-version" => {
            let v = s.ver.clone()?;
            let bad = bad_utf8(r);
            s.ver = Some(insert_at(r, &v, &bad));
        },
        "utf8-qualifier" => {
            if s.items.is_empty() {
                s.items.push(format!("k={}", bad_utf8(r)));
            } else {
                let i = r.below(s.items.len());
                let item = s.items[i].clone();
                let eq = item.find('=')?;
                if eq + 1 == item.len() {
                    // empty-valued item: the value would no longer be empty; still a single fault
                }
                let bad = bad_utf8(r);
                let v = insert_at(r, &item[eq + 1..], &bad);
                s.items[i] = format!("{}={}", &item[..eq], v);
            }
        },
        "utf8-subpath" => {
            let mut sub = s.sub.clone()?;
            let idx: Vec<usize> = (0..sub.len()).filter(|i| !["", ".", ".."].contains(&sub[*i].as_str())).collect();
            if idx.is_empty() {
                return None;
            }
            let i = *r.pick(&idx);
            let bad = bad_utf8(r);
            sub[i] = insert_at(r, &sub[i].clone(), &bad);
            s.sub = Some(sub);
        },
        "slash-namespace" => {
            let esc = *r.pick(&["%2F", "%2f"]);
            if s.ns.is_empty() || r.chance(1, 5) {
                // a segment that is only the hidden slash
                let at = r.below(s.ns.len() + 1);
                s.ns.insert(at, esc.to_string());
            } else {
                let idx: Vec<usize> = (0..s.ns.len()).filter(|i| !s.ns[*i].is_empty()).collect();
                if idx.is_empty() {
                    return None;
                }
                let i = *r.pick(&idx);
                s.ns[i] = insert_at(r, &s.ns[i].clone(), esc);
            }
        },
        "slash-subpath" => {
            let esc = *r.pick(&["%2F", "%2f"]);
            let mut sub = s.sub.clone().unwrap_or_default();
            let idx: Vec<usize> = (0..sub.len()).filter(|i| !["", ".", ".."].contains(&sub[*i].as_str())).collect();
            if idx.is_empty() || r.chance(1, 5) {
                let at = r.below(sub.len() + 1);
                sub.insert(at, esc.to_string());
            } else {
                let i = *r.pick(&idx);
                sub[i] = insert_at(r, &sub[i].clone(), esc);
            }
            s.sub = Some(sub);
        },
        k if k.starts_with("checksum-") => {
            // replace / add the checksum item by a damaged one
            let good = t.checksum.clone().unwrap_or_else(|| gen_checksum(r, 3));
            let mut entries: Vec<String> = good.iter().map(|(a, b)| format!("{a}:{}", hex::encode(b))).collect();
            match k {
                "checksum-no-colon" => {
                    let at = r.below(entries.len() + 1);
                    // (also bare digests of the usual sizes: nothing may guess their algorithm)
                    let bare = match r.below(8) {
                        0 => "0123456789abcdef".repeat(2),
                        1 => "0123456789ABCDEF0123".repeat(2),
                        2 => "0123456789abcdef".repeat(4),
                        3 => "a0".repeat(48),
                        4 => "0123456789abcdef".repeat(8),
                        _ => r.pick(&["abc", "00ff", "sha1", "x"]).to_string(),
                    };
                    entries.insert(at, bare);
                },
                "checksum-odd" => {
                    let at = r.below(entries.len() + 1);
                    entries.insert(at, format!("odd{}:{}", r.below(1000), r.pick(&["0", "abc", "00f", "12345"])));
                },
                "checksum-nonhex" => {
                    let at = r.below(entries.len() + 1);
                    // a short non-hex digest, or a long one with one bad character at any place
                    let digest = if r.coin() {
                        r.pick(&["zz", "0g", "g0", "0x", "é", "  ", "-1", "+1"]).to_string()
                    } else {
                        let len = 2 * r.range(1, 20);
                        let mut d: Vec<char> = (0..len).map(|_| *r.pick(b"0123456789abcdefABCDEF") as char).collect();
                        let i = r.below(len);
                        d[i] = *r.pick(&['g', 'G', 'z', 'x', ' ', '-', '+', '_', '.', '/', '`', '@']);
                        d.into_iter().collect()
                    };
                    entries.insert(at, format!("nh{}:{digest}", r.below(1000)));
                },
                "checksum-several-faults" => {
                    // two to four damaged entries of the same or of different kinds (e.g. two
                    // odd-length digests, whose lengths add up to an even number)
                    let n = r.range(2, 4);
                    let same = r.coin();
                    let first = r.below(4);
                    for j in 0..n {
                        let at = r.below(entries.len() + 1);
                        let e = match if same { first } else { r.below(4) } {
                            0 => format!("odd{j}x{}:{}", r.below(1000), r.pick(&["0", "abc", "00f", "a"])),
                            1 => format!("nh{j}x{}:{}", r.below(1000), r.pick(&["zz", "0g", "g0"])),
                            2 => r.pick(&["abc", "00ff", "x"]).to_string(),
                            _ => match good.first() {
                                Some((a, _)) => format!("{a}:{j}{j}"),
                                None => format!("dup:{j}{j}"),
                            },
                        };
                        entries.insert(at, e);
                    }
                    if entries.iter().filter(|e| e.starts_with("dup:")).count() == 1 {
                        entries.push("dup:00".into());
                    }
                },
                "checksum-dup-alg" if r.chance(1, 3) => {
                    // otherwise canonical: sorted, lower-case, the duplicate right next to its twin
                    let mut sorted = good.clone();
                    if sorted.is_empty() {
                        sorted.push(("a".into(), vec![0]));
                    }
                    sorted.sort();
                    entries = sorted.iter().map(|(a, b)| format!("{a}:{}", hex::encode(b))).collect();
                    let i = r.below(sorted.len());
                    entries.insert(i + 1, format!("{}:{}", sorted[i].0, r.pick(&["11", "", "00ff"])));
                },
                "checksum-dup-alg" => {
                    let (a, _) = good.first().cloned().unwrap_or((String::from("a"), vec![]));
                    if good.is_empty() {
                        entries.push(format!("{a}:00"));
                    }
                    let mut dummy = 0u32;
                    let a2 = match r.below(3) {
                        0 => a.clone(),
                        1 => a.to_ascii_uppercase(),
                        _ => vary_alg(r, &a, true, &mut dummy),
                    };
                    let at = r.below(entries.len() + 1);
                    entries.insert(at, format!("{a2}:11"));
                },
                _ => {
                    // stray comma: trailing, leading or doubled
                    match r.below(3) {
                        0 => entries.push(String::new()),
                        1 => entries.insert(0, String::new()),
                        _ => {
                            let at = r.below(entries.len() + 1);
                            entries.insert(at, String::new());
                        },
                    }
                },
            }
            let text = entries.join(",");
            // escape what must be escaped inside a qualifier value
            let mut v = String::new();
            for c in text.chars() {
                if matches!(c, '%' | '&' | '?' | '#') || (c == '@' && false) {
                    let mut buf = [0u8; 4];
                    for b in c.encode_utf8(&mut buf).bytes() {
                        v.push_str(&format!("%{b:02X}"));
                    }
                } else {
                    v.push(c);
                }
            }
            s.items.retain(|i| ascii_lower(i.split('=').next().unwrap()) != "checksum");
            let at = r.below(s.items.len() + 1);
            s.items.insert(at, format!("checksum={v}"));
        },
        _ => unreachable!("unknown fault kind {kind}"),
    }
    Some(s.assemble())
}

/// Characters worth trying in hostile-name workloads.
pub fn pool_char(r: &mut Rng) -> char {
    match r.below(4) {
        0 => *r.pick(NON_ASCII),
        1 => *r.pick(TITLECASE),
        _ => hostile_char(r),
    }
}
