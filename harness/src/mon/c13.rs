//! C13 — all built-in type parameters behave identically.
//!
//! N-version differential monitor: the same string parsed as `GenericPurl<String>` and
//! `GenericPurl<SmallString>`; the same builder history (including invalid and odd-case type
//! strings) run with `String`, `Cow::Borrowed`, `Cow::Owned`, `SmallString`. `String` is the
//! reference; any difference in Ok/Err, accessors or canonical string is a violation.

use std::borrow::Cow;
use std::fmt::Debug;

use purl::{PurlShape, SmallString};
use serde_json::{json, Value};

use super::{str_field, Fail};
use crate::exec::{self, run_hist};
use crate::gen;
use crate::hist::{self, Hist};
use crate::obs::{self, Ctx, Out, Snap, Tier};
use crate::rng::fnv;
use crate::shrink::{shrink_str, shrink_vec};
use crate::spell;

pub const RULE: &str = "a case is one input string (parser: String vs SmallString) or one builder history (String vs Cow::Borrowed vs Cow::Owned vs SmallString); non-trivial = the reference accepts it, or refuses it because of the type string; distinct by hash of the input / history";

pub fn requirements(tier: Tier) -> Vec<(&'static str, u64)> {
    let q = tier == Tier::Quick;
    vec![
        ("parser-comparisons", if q { 1_000_000 } else { 10_000_000 }),
        ("parser-comparisons:both-accept", 100_000),
        ("builder-comparisons", if q { 300_000 } else { 5_000_000 }),
        ("builder:type-invalid", 10_000),
        ("builder:type-needs-lowercasing", 10_000),
        ("builder:type-longer-than-23-bytes", 1_000),
        ("builder:type-empty", 100),
        ("builder:accepted", 50_000),
    ]
}

type Outcome = Out<(Snap, String)>;

fn parse_outcome<T>(s: &str) -> Outcome
where
    T: std::str::FromStr + PurlShape,
    <T as PurlShape>::Error: From<<T as std::str::FromStr>::Err> + Debug,
{
    match obs::parse::<T>(s) {
        Out::Ok(p) => match obs::show(&p) {
            Out::Ok(c) => Out::Ok((Snap::of(&p), c)),
            Out::Err(e) => Out::Err(e),
            Out::Panic(m) => Out::Panic(m),
        },
        Out::Err(e) => Out::Err(e),
        Out::Panic(m) => Out::Panic(m),
    }
}

pub fn judge_parse(s: &str) -> (bool, Option<Fail>) {
    let a = parse_outcome::<String>(s);
    let b = parse_outcome::<SmallString>(s);
    let ok = a.is_ok();
    if a != b {
        let tag = match (&a, &b) {
            (Out::Ok(_), Out::Ok(_)) => "value",
            (Out::Ok(_), _) | (_, Out::Ok(_)) => "acceptance",
            _ => "error",
        };
        return (ok, Some(Fail::tagged("parser-differs", tag, format!("{s:?}: GenericPurl<String> gives {a:?}, GenericPurl<SmallString> gives {b:?}"))));
    }
    (ok, None)
}

/// (setter outcomes, build outcome)
fn hist_outcome<'a, T>(h: &'a Hist, mk: &dyn Fn(&'a str) -> Option<T>) -> Option<(Vec<(usize, Out<()>)>, Outcome)>
where
    T: PurlShape + Clone + crate::exec::Reparse,
    T::Error: Debug,
{
    let run = run_hist(h, mk)?;
    if let Some(p) = run.panic {
        return Some((run.setters, Out::Panic(p)));
    }
    let out = match obs::build(run.builder?) {
        Out::Ok(p) => match obs::show(&p) {
            Out::Ok(c) => Out::Ok((Snap::of(&p), c)),
            Out::Err(e) => Out::Err(e),
            Out::Panic(m) => Out::Panic(m),
        },
        Out::Err(e) => Out::Err(e),
        Out::Panic(m) => Out::Panic(m),
    };
    Some((run.setters, out))
}

pub fn judge_hist(h: &Hist) -> (Option<Outcome>, Option<Fail>) {
    let Some(reference) = hist_outcome::<String>(h, &exec::mk_string) else { return (None, None) };
    let others: [(&str, Option<(Vec<(usize, Out<()>)>, Outcome)>); 3] = [
        ("Cow::Borrowed", hist_outcome::<Cow<str>>(h, &exec::mk_cow_borrowed)),
        ("Cow::Owned", hist_outcome::<Cow<str>>(h, &exec::mk_cow_owned)),
        ("SmallString", hist_outcome::<SmallString>(h, &exec::mk_small)),
    ];
    for (tp, o) in others {
        let Some(o) = o else { continue };
        if o != reference {
            let tag = match (&reference.1, &o.1) {
                (Out::Ok(_), Out::Ok(_)) => "value",
                (Out::Ok(_), _) | (_, Out::Ok(_)) => "acceptance",
                (a, b) if a != b => "error",
                _ => "setter",
            };
            return (
                Some(reference.1.clone()),
                Some(Fail::tagged("builder-differs", format!("{tp}:{tag}"), format!("history {h:?}: String gives {:?}, {tp} gives {:?}", reference, o))),
            );
        }
    }
    (Some(reference.1), None)
}

fn parse_case(ctx: &mut Ctx, s: &str) {
    ctx.st.evaluations += 1;
    ctx.st.count("parser-comparisons");
    let (ok, f) = judge_parse(s);
    if ok {
        ctx.st.count("parser-comparisons:both-accept");
        ctx.st.nontrivial(fnv(s.as_bytes()));
    }
    if let Some(f) = f {
        let (kind, tag) = (f.kind.clone(), f.tag.clone());
        let min = shrink_str(s, &mut |c| judge_parse(c).1.map_or(false, |g| g.kind == kind && g.tag == tag));
        let g = judge_parse(&min).1.unwrap_or(f);
        ctx.st.violation("C13.differential", g.signature("C13.differential", &min), g.detail, json!({"kind": "parse", "input": min}));
    }
}

fn hist_case(ctx: &mut Ctx, h: &Hist) {
    ctx.st.evaluations += 1;
    ctx.st.count("builder-comparisons");
    // which type string is in force at build()?
    let last_ty = h
        .calls
        .iter()
        .rev()
        .find_map(|c| match c {
            hist::Call::Type(t) | hist::Call::PartsType(t) => Some(t.as_str()),
            _ => None,
        })
        .unwrap_or(&h.ty);
    if !crate::model::type_chars_ok(last_ty) {
        ctx.st.count("builder:type-invalid");
        if last_ty.is_empty() {
            ctx.st.count("builder:type-empty");
        }
    } else if last_ty.bytes().any(|b| b.is_ascii_uppercase()) {
        ctx.st.count("builder:type-needs-lowercasing");
    }
    if last_ty.len() > 23 {
        ctx.st.count("builder:type-longer-than-23-bytes");
    }
    let (o, f) = judge_hist(h);
    if let Some(o) = o {
        if o.is_ok() {
            ctx.st.count("builder:accepted");
        }
        if o.is_ok() || !crate::model::type_chars_ok(last_ty) {
            ctx.st.nontrivial(fnv(format!("{h:?}").as_bytes()));
        }
        ctx.st.sample(|| json!({"history": h, "all_four_type_parameters": o.kind()}));
    }
    if let Some(f) = f {
        let (kind, tag) = (f.kind.clone(), f.tag.clone());
        let calls = shrink_vec(&h.calls, &mut |cs| {
            let hh = Hist { ty: h.ty.clone(), name: h.name.clone(), calls: cs.to_vec() };
            judge_hist(&hh).1.map_or(false, |g| g.kind == kind && g.tag == tag)
        });
        let hh = Hist { ty: h.ty.clone(), name: h.name.clone(), calls };
        let g = judge_hist(&hh).1.unwrap_or(f);
        ctx.st.violation("C13.differential", format!("C13.differential:{}:{}", g.kind, g.tag), g.detail, json!({"kind": "build", "history": hh}));
    }
}

const TYPE_UNIVERSE: &[&str] = &[
    "t", "T", "tT", "t1", "T+", "a.b-c", "1t", "", "!", "t/", "é", "T%41", "É", "t t", "T\0", "-", "+.", "averyveryverylongtypename.x", "AVERYVERYVERYLONGTYPENAME+X",
    "averyveryverylongtypename!", "ǅ", "K", "\u{212A}", "t\u{301}", ".", "..", "...", ".a", "a.", "+", "--", "0", "\r", "deb\r", "a\u{b}",
];

/// The type names of the PURL spec the way their projects write them, and the usual other
/// capitalisations (a "did you mean" table keyed on exact spellings shows here).
const BRAND_TYPES: &[&str] = &[
    "CocoaPods", "Cocoapods", "GitHub", "Github", "Bitbucket", "BitBucket", "NuGet", "Nuget", "PyPI", "PyPi", "Pypi", "NPM", "Npm", "RubyGems", "Gem", "Maven", "Golang", "GoLang", "Go", "Cargo",
    "Crates.io", "Composer", "Conan", "Conda", "CRAN", "Cran", "Debian", "Deb", "Docker", "Generic", "Hackage", "Hex", "HuggingFace", "Huggingface", "MLflow", "MLFlow", "OCI", "Oci", "Pub", "RPM", "Rpm",
    "SWID", "Swid", "Swift", "ALPM", "Alpm", "APK", "Apk", "Bitnami", "CPAN", "Cpan", "LuaRocks", "Luarocks", "QPKG", "Qpkg", "Qt5", "C++", "H2O", "Log4j", "Win32", "X11", "S3", "P2", "Web3",
];

fn long_types() -> Vec<String> {
    let mut v = Vec::new();
    for n in [23usize, 24, 64, 255, 256, 257, 300, 1024, 65_536] {
        v.push("a".repeat(n));
        v.push(format!("X{}", "a".repeat(n)));
        v.push(format!("{}-2", "a".repeat(n)));
        v.push(format!("{}!", "a".repeat(n)));
        v.push("Z".repeat(n));
    }
    v
}

pub fn run(ctx: &mut Ctx) {
    // parser: complete token language, legal spellings, mutated corpus
    let (w, n, quick) = (ctx.worker, ctx.nworkers, ctx.quick());
    {
        let mut f = |_i: u64, s: &str| parse_case(ctx, s);
        let (total, name) = gen::for_each_g1(quick, w, n, &mut f);
        if ctx.worker == 0 {
            ctx.st.exhaustive.push(json!({"name": format!("{name}: String vs SmallString"), "size": total, "completed": true}));
        }
    }
    let mut r = ctx.rng("c13.g2");
    for _ in 0..ctx.share(150_000, 4_000_000) {
        let t = spell::gen_tuple(&mut r, false);
        let mask = spell::random_mask(&mut r);
        let s = spell::spell(&mut r, &t, mask).assemble();
        parse_case(ctx, &s);
    }
    let (corpus, _) = gen::load_corpus();
    let mut r = ctx.rng("c13.g10");
    for _ in 0..ctx.share(200_000, 6_000_000) {
        let s = gen::mutate(&mut r, &corpus);
        parse_case(ctx, &s);
    }
    // builder: the type universe x short histories (complete), then random histories
    let calls = hist::universe_calls(false);
    let mut idx = 0u64;
    for ty in TYPE_UNIVERSE.iter().chain(BRAND_TYPES.iter()) {
        for name in ["n", ""] {
            for c in std::iter::once(None).chain(calls.iter().map(Some)) {
                idx += 1;
                if !ctx.mine(idx) {
                    continue;
                }
                let h = Hist { ty: ty.to_string(), name: name.to_string(), calls: c.into_iter().cloned().collect() };
                hist_case(ctx, &h);
            }
        }
    }
    if ctx.worker == 0 {
        ctx.st.exhaustive.push(json!({"name": format!("{} type strings x {{name, empty name}} x (no call | each of {} call forms), 4 type parameters", TYPE_UNIVERSE.len() + BRAND_TYPES.len(), calls.len()), "size": idx, "completed": true}));
        // long type strings (length limits applied to one type parameter only)
        for ty in long_types() {
            for call in [None, Some(hist::Call::Rebuild), Some(hist::Call::Ver("1".into()))] {
                let h = Hist { ty: ty.clone(), name: "n".into(), calls: call.into_iter().collect() };
                hist_case(ctx, &h);
                // and through the parser
                parse_case(ctx, &format!("pkg:{ty}/n@1"));
            }
        }
    }
    let mut r = ctx.rng("c13.g4");
    for _ in 0..ctx.share(300_000, 8_000_000) {
        let mut h = hist::rand_hist(&mut r, false);
        match r.below(6) {
            0 if r.coin() => h.ty = r.pick(BRAND_TYPES).to_string(),
            0 => h.ty = r.pick(TYPE_UNIVERSE).to_string(),
            1 => h.ty = gen::mixed_string(&mut r, 0, 30, 30),
            2 => h.ty = spell::gen_type(&mut r).to_uppercase(),
            _ => {},
        }
        hist_case(ctx, &h);
    }
}

pub fn replay(_monitor: &str, case: &Value) -> Result<Option<Fail>, String> {
    match str_field(case, "kind")? {
        "parse" => Ok(judge_parse(str_field(case, "input")?).1),
        "build" => {
            let h: Hist = serde_json::from_value(case.get("history").cloned().unwrap_or(Value::Null)).map_err(|e| e.to_string())?;
            Ok(judge_hist(&h).1)
        },
        o => Err(format!("unknown case kind {o}")),
    }
}
