//! C11 — the qualifier collection behaves as a case-insensitive sorted map.
//!
//! Model-based online monitor: every operation is applied to the real `Qualifiers` and to the
//! reference map R5 (`BTreeMap<ascii-lower key, value>`) in lock-step; the rendered return
//! value and the complete observable state are compared after every step.

use std::collections::hash_map::DefaultHasher;
use std::collections::BTreeMap;
use std::hash::{Hash, Hasher};

use purl::qualifiers::well_known::gem::Platform;
use purl::qualifiers::well_known::maven::{Classifier, Type as MavenType};
use purl::qualifiers::well_known::{Checksum, DownloadUrl, FileName, RepositoryUrl, VcsUrl};
use purl::qualifiers::Entry;
use purl::{Qualifiers, SmallString};
use serde::{Deserialize, Serialize};
use serde_json::{json, Value};

use super::Fail;
use crate::exec::make_checksum;
use crate::gen;
use crate::hist::{checksum_inserts_text, CsVal, TYPED_KEYS};
use crate::model::{ascii_lower, key_ok, lower};
use crate::obs::{guard, Ctx, Out, Tier};
use crate::rng::{fnv, Rng};
use crate::shrink::shrink_vec;

pub const RULE: &str = "a case is one transition (collection content, operation with arguments); non-trivial = the operation touches a key (any case) or iterates a collection with >= 2 entries; distinct by hash of (content, operation)";

pub fn requirements(tier: Tier) -> Vec<(&'static str, u64)> {
    let q = tier == Tier::Quick;
    vec![
        ("set:exhaustive-contents-reached", 64),
        ("exhaustive-transitions", 30_000),
        ("random-histories", if q { 20_000 } else { 1_000_000 }),
        ("random-transitions", if q { 1_000_000 } else { 50_000_000 }),
        ("max:collection-size", 8),
        ("set:operation-forms-exercised", 45),
        ("observed:documented-index-panic", 1_000),
        ("observed:invalid-key-refused", 10_000),
        ("observed:case-variant-lookup-hit", 10_000),
        ("observed:try-from-iter-duplicate-refused", 100),
    ]
}

type M = BTreeMap<String, String>;

/// A user-defined typed qualifier whose declared key is valid but not lower-case (index 7).
pub struct MixedKey<'a>(pub &'a str);

impl purl::qualifiers::well_known::KnownQualifierKey for MixedKey<'_> {
    const KEY: &'static str = "Mixed_Key.X-1";
}

impl<'a> From<&'a str> for MixedKey<'a> {
    fn from(v: &'a str) -> Self {
        MixedKey(v)
    }
}

impl<'a> From<MixedKey<'a>> for SmallString {
    fn from(v: MixedKey<'a>) -> Self {
        SmallString::from(v.0)
    }
}

/// The same key read through a fallible conversion (index 7 of `TryGetTypedUser`).
pub struct MixedTry<'a>(pub &'a str);

impl purl::qualifiers::well_known::KnownQualifierKey for MixedTry<'_> {
    const KEY: &'static str = "MIXED_key.x-1";
}

impl<'a> TryFrom<&'a str> for MixedTry<'a> {
    type Error = String;

    fn try_from(v: &'a str) -> Result<Self, String> {
        if v.contains('!') {
            Err("bang".into())
        } else {
            Ok(MixedTry(v))
        }
    }
}

pub const N_TYPED: u8 = 8;

fn typed_key(i: u8) -> &'static str {
    TYPED_KEYS[(i as usize).min(7)]
}

#[derive(Clone, Debug, Serialize, Deserialize, PartialEq, Eq, Hash)]
pub enum Pred {
    All,
    Nothing,
    KeyLe(String),
    ValueNonEmpty,
    /// `|k, _| *k == S` — uses QualifierKey's case-insensitive comparison
    KeyEq(String),
    KeyNe(String),
    /// stateful predicate: rejects the first `n` entries it is shown, keeps the rest
    /// (a predicate that is offered an entry twice, or out of order, decides differently)
    SkipFirst(u8),
}

impl Pred {
    fn eval(&self, lk: &str, v: &str, calls: &mut u32) -> bool {
        *calls += 1;
        match self {
            Pred::SkipFirst(n) => *calls > *n as u32,
            Pred::All => true,
            Pred::Nothing => false,
            Pred::KeyLe(x) => lk <= x.as_str(),
            Pred::ValueNonEmpty => !v.is_empty(),
            Pred::KeyEq(s) => lk == lower(s),
            Pred::KeyNe(s) => lk != lower(s),
        }
    }

    fn eval_real(&self, k: &purl::qualifiers::QualifierKey, v: &str, calls: &mut u32) -> bool {
        *calls += 1;
        match self {
            Pred::SkipFirst(n) => *calls > *n as u32,
            Pred::All => true,
            Pred::Nothing => false,
            Pred::KeyLe(x) => k.as_str() <= x.as_str(),
            Pred::ValueNonEmpty => !v.is_empty(),
            Pred::KeyEq(s) => *k == *s.as_str(),
            Pred::KeyNe(s) => *k != *s.as_str(),
        }
    }
}

#[derive(Clone, Debug, Serialize, Deserialize, PartialEq, Eq, Hash)]
pub enum QOp {
    Insert(String, String),
    Remove(String),
    Get(String),
    GetMut(String, String),
    Contains(String),
    Index(String),
    IndexMut(String, String),
    EntryClassify(String),
    EntryOrInsert(String, String),
    EntryOrInsertWith(String, String),
    EntryAndModifyOrInsert(String, String, String),
    OccGet(String),
    OccGetMut(String, String),
    OccIntoMut(String, String),
    OccInsert(String, String),
    OccRemove(String),
    OccRemoveEntry(String),
    VacInsert(String, String),
    InsertTyped(u8, String),
    TryInsertChecksum(Vec<(String, CsVal)>),
    RemoveTyped(u8),
    GetTyped(u8),
    TryGetChecksum,
    /// try_get_typed with a user-defined fallible type whose KEY is mixed-case
    TryGetTypedUser,
    ContainsTyped(u8),
    Retain(Pred),
    RetainMut(Pred, String),
    Clear,
    Reserve(u8),
    ReserveExact(u8),
    IterFwd,
    IterBack,
    /// bit i = 1: next_back, else next; len()/size_hint checked at every step
    IterInterleaved(u32),
    IterMutAppend(String),
    IterMutBackFirst(String),
    /// after `front` calls of next() and `back` calls of next_back(): every consuming
    /// iterator method (internal and external iteration, both directions) on iter() and on
    /// iter_mut(), compared with the same methods on a plain slice of the expected pairs
    IterAdapters(u8, u8),
    IntoIterRef,
    IntoIterMutAppend(String),
    LenIsEmpty,
    CloneEqHash,
    /// `q.clone_from(&other)` where `other` is built from the pairs (shorter, equal or longer)
    CloneFrom(Vec<(String, String)>),
    TryFromIter(Vec<(String, String)>),
    /// second collection with the same content, inserted in another order and key case
    Rebuild(u64),
    CmpWith(Vec<(String, String)>),
    /// compare the stored key `k` with the ASCII string `s` through QualifierKey's PartialEq / PartialOrd
    KeyCmp(String, String),
    KeyDerefAsRef(String),
}

impl QOp {
    pub fn form(&self) -> &'static str {
        match self {
            QOp::Insert(..) => "insert",
            QOp::Remove(..) => "remove",
            QOp::Get(..) => "get",
            QOp::GetMut(..) => "get_mut",
            QOp::Contains(..) => "contains_key",
            QOp::Index(..) => "index",
            QOp::IndexMut(..) => "index_mut",
            QOp::EntryClassify(..) => "entry",
            QOp::EntryOrInsert(..) => "entry.or_insert",
            QOp::EntryOrInsertWith(..) => "entry.or_insert_with",
            QOp::EntryAndModifyOrInsert(..) => "entry.and_modify.or_insert",
            QOp::OccGet(..) => "occupied.get",
            QOp::OccGetMut(..) => "occupied.get_mut",
            QOp::OccIntoMut(..) => "occupied.into_mut",
            QOp::OccInsert(..) => "occupied.insert",
            QOp::OccRemove(..) => "occupied.remove",
            QOp::OccRemoveEntry(..) => "occupied.remove_entry",
            QOp::VacInsert(..) => "vacant.insert",
            QOp::InsertTyped(..) => "insert_typed",
            QOp::TryInsertChecksum(..) => "try_insert_typed",
            QOp::RemoveTyped(..) => "remove_typed",
            QOp::GetTyped(..) => "get_typed",
            QOp::TryGetChecksum => "try_get_typed",
            QOp::TryGetTypedUser => "try_get_typed(user type)",
            QOp::ContainsTyped(..) => "contains_typed",
            QOp::Retain(..) => "retain",
            QOp::RetainMut(..) => "retain_mut",
            QOp::Clear => "clear",
            QOp::Reserve(..) => "reserve",
            QOp::ReserveExact(..) => "reserve_exact",
            QOp::IterFwd => "iter",
            QOp::IterBack => "iter.rev",
            QOp::IterInterleaved(..) => "iter.next/next_back",
            QOp::IterMutAppend(..) => "iter_mut",
            QOp::IterMutBackFirst(..) => "iter_mut.next_back",
            QOp::IterAdapters(..) => "iterator-methods",
            QOp::IntoIterRef => "into_iter(&)",
            QOp::IntoIterMutAppend(..) => "into_iter(&mut)",
            QOp::LenIsEmpty => "len/is_empty",
            QOp::CloneEqHash => "clone/eq/hash",
            QOp::CloneFrom(..) => "clone_from",
            QOp::TryFromIter(..) => "try_from_iter",
            QOp::Rebuild(..) => "rebuild-other-order",
            QOp::CmpWith(..) => "cmp",
            QOp::KeyCmp(..) => "QualifierKey.cmp",
            QOp::KeyDerefAsRef(..) => "QualifierKey.deref",
        }
    }

    fn key(&self) -> Option<&str> {
        match self {
            QOp::Insert(k, _) | QOp::Remove(k) | QOp::Get(k) | QOp::GetMut(k, _) | QOp::Contains(k) | QOp::Index(k) | QOp::IndexMut(k, _) | QOp::EntryClassify(k)
            | QOp::EntryOrInsert(k, _) | QOp::EntryOrInsertWith(k, _) | QOp::EntryAndModifyOrInsert(k, _, _) | QOp::OccGet(k) | QOp::OccGetMut(k, _) | QOp::OccIntoMut(k, _)
            | QOp::OccInsert(k, _) | QOp::OccRemove(k) | QOp::OccRemoveEntry(k) | QOp::VacInsert(k, _) | QOp::KeyCmp(k, _) | QOp::KeyDerefAsRef(k) => Some(k),
            _ => None,
        }
    }
}

fn opt(v: Option<&str>) -> String {
    match v {
        Some(v) => format!("Some({v:?})"),
        None => "None".into(),
    }
}

fn list(m: &M) -> String {
    format!("{:?}", m.iter().collect::<Vec<_>>())
}

fn structure_checksum(text: &str) -> Result<Vec<(String, String)>, ()> {
    let mut m: BTreeMap<String, String> = BTreeMap::new();
    for e in text.split(',') {
        let pos = e.rfind(':').ok_or(())?;
        if m.insert(lower(&e[..pos]), e[pos + 1..].to_string()).is_some() {
            return Err(());
        }
    }
    Ok(m.into_iter().collect())
}

const PANIC: &str = "PANIC";

/// The model: returns the rendered result the real call must produce.
/// Every consuming method of a double-ended, exact-size iterator, rendered as text.
/// `$mk` is an expression producing a fresh, equally advanced iterator each time it is
/// evaluated; `$conv` turns an item into owned `(key, value)` strings; `$len` reads the value
/// length through a reference to an item.
macro_rules! iterator_methods {
    ($mk:expr, $conv:expr, $len:expr) => {{
        let c = $conv;
        let vl = $len;
        let mut o: Vec<String> = Vec::new();
        let n = $mk.len();
        o.push(format!("len={n} size_hint={:?} count={}", $mk.size_hint(), $mk.count()));
        let mut v = Vec::new();
        for x in $mk {
            v.push(c(x));
        }
        o.push(format!("for={v:?}"));
        o.push(format!("collect={:?}", $mk.map(c).collect::<Vec<_>>()));
        let mut v = Vec::new();
        $mk.for_each(|x| v.push(c(x)));
        o.push(format!("for_each={v:?}"));
        o.push(format!("fold={:?}", $mk.fold(Vec::new(), |mut a, x| {
            a.push(c(x));
            a
        })));
        o.push(format!("rfold={:?}", $mk.rfold(Vec::new(), |mut a, x| {
            a.push(c(x));
            a
        })));
        let mut v = Vec::new();
        for x in $mk.rev() {
            v.push(c(x));
        }
        o.push(format!("rev.for={v:?}"));
        let mut v = Vec::new();
        $mk.rev().for_each(|x| v.push(c(x)));
        o.push(format!("rev.for_each={v:?}"));
        o.push(format!("rev.fold={:?}", $mk.rev().fold(Vec::new(), |mut a, x| {
            a.push(c(x));
            a
        })));
        o.push(format!("rev.rfold={:?}", $mk.rev().rfold(Vec::new(), |mut a, x| {
            a.push(c(x));
            a
        })));
        o.push(format!("rev.collect={:?} rev.rev.collect={:?}", $mk.rev().map(c).collect::<Vec<_>>(), $mk.rev().rev().map(c).collect::<Vec<_>>()));
        o.push(format!("last={:?} rev.last={:?}", $mk.last().map(c), $mk.rev().last().map(c)));
        o.push(format!("try_fold={:?}", $mk.try_fold(Vec::new(), |mut a, x| {
            a.push(c(x));
            if a.len() == 2 { Err(a) } else { Ok(a) }
        })));
        o.push(format!("try_rfold={:?}", $mk.try_rfold(Vec::new(), |mut a, x| {
            a.push(c(x));
            if a.len() == 2 { Err(a) } else { Ok(a) }
        })));
        o.push(format!("find={:?} rfind={:?}", $mk.find(|x| vl(x) % 2 == 0).map(c), $mk.rfind(|x| vl(x) % 2 == 0).map(c)));
        o.push(format!("position={:?} rposition={:?}", $mk.position(|x| vl(&x) % 2 == 1), $mk.rposition(|x| vl(&x) % 2 == 1)));
        o.push(format!("any={} all={}", $mk.any(|x| vl(&x) == 0), $mk.all(|x| vl(&x) > 0)));
        o.push(format!("max_by_key={:?} min_by_key={:?}", $mk.max_by_key(|x| vl(x)).map(c), $mk.min_by_key(|x| vl(x)).map(c)));
        o.push(format!("filter.count={} rev.filter.collect={:?}", $mk.filter(|x| vl(x) > 0).count(), $mk.rev().filter(|x| vl(x) % 2 == 0).map(c).collect::<Vec<_>>()));
        o.push(format!("enumerate.rev={:?}", $mk.enumerate().rev().map(|(i, x)| (i, c(x))).collect::<Vec<_>>()));
        for k in 0..=n + 1 {
            o.push(format!(
                "k={k}: nth={:?} nth_back={:?} skip={:?} take={:?} rev.skip={:?} rev.take={:?} step_by={:?} skip.rev={:?} take.rev={:?}",
                $mk.nth(k).map(c),
                $mk.nth_back(k).map(c),
                $mk.skip(k).map(c).collect::<Vec<_>>(),
                $mk.take(k).map(c).collect::<Vec<_>>(),
                $mk.rev().skip(k).map(c).collect::<Vec<_>>(),
                $mk.rev().take(k).map(c).collect::<Vec<_>>(),
                $mk.step_by(k + 1).map(c).collect::<Vec<_>>(),
                $mk.skip(k).rev().map(c).collect::<Vec<_>>(),
                $mk.take(k).rev().map(c).collect::<Vec<_>>(),
            ));
            // what is left after nth / nth_back
            let mut it = $mk;
            let _ = it.nth(k);
            let l = it.len();
            o.push(format!("after nth({k}): len={l} rest={:?}", it.map(c).collect::<Vec<_>>()));
            let mut it = $mk;
            let _ = it.nth_back(k);
            o.push(format!("after nth_back({k}): rest={:?}", it.map(c).collect::<Vec<_>>()));
        }
        // by_ref: partial consumption, then the rest from the other end
        let mut it = $mk;
        let head: Vec<_> = it.by_ref().take(1).map(c).collect();
        let tail: Vec<_> = it.rev().map(c).collect();
        o.push(format!("by_ref.take(1)={head:?} then rev={tail:?}"));
        o.join("\n")
    }};
}

/// Methods that need two live iterators over the same collection (shared iteration only).
macro_rules! iterator_pair_methods {
    ($mk:expr, $conv:expr) => {{
        let c = $conv;
        format!(
            "zip.rev={:?} chain.count={} chain.rev={:?} eq={} lt={}",
            $mk.zip($mk.rev()).map(|(a, b)| (c(a).0, c(b).0)).collect::<Vec<_>>(),
            $mk.chain($mk).count(),
            $mk.chain($mk.rev()).rev().map(c).collect::<Vec<_>>(),
            $mk.map(c).eq($mk.map(c)),
            $mk.map(c).lt($mk.rev().map(c)),
        )
    }};
}

pub fn apply_model(m: &mut M, op: &QOp) -> String {
    let present = |m: &M, k: &str| if key_ok(k) { m.get(&ascii_lower(k)).cloned() } else { None };
    match op {
        QOp::Insert(k, v) => {
            if !key_ok(k) {
                return "Err(InvalidQualifier)".into();
            }
            m.insert(ascii_lower(k), v.clone());
            format!("Ok({v:?})")
        },
        QOp::Remove(k) => {
            let r = if key_ok(k) { m.remove(&ascii_lower(k)) } else { None };
            opt(r.as_deref())
        },
        QOp::Get(k) => opt(present(m, k).as_deref()),
        QOp::GetMut(k, nv) => {
            let old = present(m, k);
            if old.is_some() {
                m.insert(ascii_lower(k), nv.clone());
            }
            opt(old.as_deref())
        },
        QOp::Contains(k) => present(m, k).is_some().to_string(),
        QOp::Index(k) => present(m, k).map(|v| format!("{v:?}")).unwrap_or_else(|| PANIC.into()),
        QOp::IndexMut(k, nv) => match present(m, k) {
            Some(old) => {
                m.insert(ascii_lower(k), nv.clone());
                format!("{old:?}")
            },
            None => PANIC.into(),
        },
        QOp::EntryClassify(k) => {
            if !key_ok(k) {
                "Err(InvalidQualifier)".into()
            } else if m.contains_key(&ascii_lower(k)) {
                "Occupied".into()
            } else {
                "Vacant".into()
            }
        },
        QOp::EntryOrInsert(k, v) | QOp::EntryOrInsertWith(k, v) => {
            if !key_ok(k) {
                return "Err(InvalidQualifier)".into();
            }
            let e = m.entry(ascii_lower(k)).or_insert_with(|| v.clone());
            format!("{e:?}")
        },
        QOp::EntryAndModifyOrInsert(k, app, v) => {
            if !key_ok(k) {
                return "Err(InvalidQualifier)".into();
            }
            let e = m.entry(ascii_lower(k)).and_modify(|x| x.push_str(app)).or_insert_with(|| v.clone());
            format!("{e:?}")
        },
        QOp::OccGet(k) => match apply_model(m, &QOp::EntryClassify(k.clone())).as_str() {
            "Occupied" => format!("{:?}", m[&ascii_lower(k)]),
            o => o.to_string(),
        },
        QOp::OccGetMut(k, nv) | QOp::OccIntoMut(k, nv) | QOp::OccInsert(k, nv) => match apply_model(m, &QOp::EntryClassify(k.clone())).as_str() {
            "Occupied" => {
                let old = m.insert(ascii_lower(k), nv.clone()).unwrap();
                format!("{old:?}")
            },
            o => o.to_string(),
        },
        QOp::OccRemove(k) => match apply_model(m, &QOp::EntryClassify(k.clone())).as_str() {
            "Occupied" => format!("{:?}", m.remove(&ascii_lower(k)).unwrap()),
            o => o.to_string(),
        },
        QOp::OccRemoveEntry(k) => match apply_model(m, &QOp::EntryClassify(k.clone())).as_str() {
            "Occupied" => {
                let lk = ascii_lower(k);
                let v = m.remove(&lk).unwrap();
                format!("({lk:?}, {v:?})")
            },
            o => o.to_string(),
        },
        QOp::VacInsert(k, v) => match apply_model(m, &QOp::EntryClassify(k.clone())).as_str() {
            "Vacant" => {
                m.insert(ascii_lower(k), v.clone());
                format!("{v:?}")
            },
            o => o.to_string(),
        },
        QOp::InsertTyped(i, v) => {
            m.insert(typed_key(*i).into(), v.clone());
            "()".into()
        },
        QOp::TryInsertChecksum(entries) => match checksum_inserts_text(entries) {
            Ok(t) => {
                m.insert("checksum".into(), t);
                "Ok".into()
            },
            Err(e) => format!("Err({e})"),
        },
        QOp::RemoveTyped(i) => {
            m.remove(typed_key(*i));
            "()".into()
        },
        QOp::GetTyped(i) => opt(m.get(typed_key(*i)).map(|s| s.as_str())),
        QOp::TryGetTypedUser => match m.get("mixed_key.x-1") {
            None => "Ok(None)".into(),
            Some(v) if v.contains('!') => "Err(bang)".into(),
            Some(v) => format!("Ok(Some({v:?}))"),
        },
        QOp::TryGetChecksum => match m.get("checksum") {
            None => "Ok(None)".into(),
            Some(t) => match structure_checksum(t) {
                Ok(v) => format!("Ok(Some({v:?}))"),
                Err(()) => "Err(InvalidQualifier)".into(),
            },
        },
        QOp::ContainsTyped(i) => m.contains_key(typed_key(*i)).to_string(),
        QOp::Retain(p) => {
            let mut calls = 0;
            m.retain(|k, v| p.eval(k, v, &mut calls));
            format!("predicate-calls={calls}")
        },
        QOp::RetainMut(p, app) => {
            let mut calls = 0;
            m.retain(|k, v| {
                let keep = p.eval(k, v, &mut calls);
                v.push_str(app);
                keep
            });
            format!("predicate-calls={calls}")
        },
        QOp::Clear => {
            m.clear();
            "()".into()
        },
        QOp::Reserve(_) | QOp::ReserveExact(_) => "capacity-ok".into(),
        QOp::IterFwd | QOp::IntoIterRef => list(m),
        QOp::IterBack => format!("{:?}", m.iter().rev().collect::<Vec<_>>()),
        QOp::IterInterleaved(bits) => {
            let items: Vec<(&String, &String)> = m.iter().collect();
            let (mut lo, mut hi) = (0usize, items.len());
            let mut out = String::new();
            let mut step = 0;
            loop {
                out.push_str(&format!("[len={}]", hi - lo));
                if lo == hi {
                    out.push_str("None,None");
                    break;
                }
                if bits >> (step % 32) & 1 == 1 {
                    hi -= 1;
                    out.push_str(&format!("{:?}", items[hi]));
                } else {
                    out.push_str(&format!("{:?}", items[lo]));
                    lo += 1;
                }
                step += 1;
            }
            out
        },
        QOp::IterAdapters(front, back) => {
            let items: Vec<(String, String)> = m.iter().map(|(k, v)| (k.clone(), v.clone())).collect();
            let lo = (*front as usize).min(items.len());
            let hi = items.len() - (*back as usize).min(items.len() - lo);
            let slice = &items[lo..hi];
            let one = iterator_methods!(slice.iter(), |x: &(String, String)| x.clone(), |x: &&(String, String)| x.1.len());
            let two = iterator_pair_methods!(slice.iter(), |x: &(String, String)| x.clone());
            format!("iter:\n{one}\n{two}\niter_mut:\n{one}")
        },
        QOp::IterMutAppend(app) | QOp::IntoIterMutAppend(app) => {
            for v in m.values_mut() {
                v.push_str(app);
            }
            list(m)
        },
        QOp::IterMutBackFirst(app) => {
            if let Some((_, v)) = m.iter_mut().next_back() {
                v.push_str(app);
            }
            list(m)
        },
        QOp::LenIsEmpty => format!("{},{}", m.len(), m.is_empty()),
        QOp::CloneEqHash | QOp::Rebuild(_) => "true".into(),
        QOp::CloneFrom(pairs) => {
            let mut n = M::new();
            for (k, v) in pairs {
                if key_ok(k) {
                    n.insert(ascii_lower(k), v.clone());
                }
            }
            *m = n;
            list(m)
        },
        QOp::TryFromIter(pairs) => {
            let mut n = M::new();
            for (k, v) in pairs {
                if !key_ok(k) || n.insert(ascii_lower(k), v.clone()).is_some() {
                    return "Err(InvalidQualifier)".into();
                }
            }
            *m = n;
            format!("Ok({})", list(m))
        },
        QOp::CmpWith(pairs) => {
            let other: M = pairs.iter().map(|(k, v)| (ascii_lower(k), v.clone())).collect();
            let a: Vec<(&String, &String)> = m.iter().collect();
            let b: Vec<(&String, &String)> = other.iter().collect();
            format!("{:?},{}", a.cmp(&b), a == b)
        },
        QOp::KeyCmp(k, s) => match present(m, k) {
            Some(_) => {
                let lk = ascii_lower(k);
                let ls = ascii_lower(s);
                format!("{},{:?}", lk == ls, Some(lk.as_str().cmp(ls.as_str())))
            },
            None => "absent".into(),
        },
        QOp::KeyDerefAsRef(k) => match present(m, k) {
            Some(_) => format!("{:?}", ascii_lower(k)),
            None => "absent".into(),
        },
    }
}

/// An iterator adaptor that reports one of the size hints a correct iterator may report:
/// exact, unknown, or a lower bound of 0 with a huge upper bound (`take_while` over an unbounded
/// range). Which one is a function of the items, so that replays are deterministic.
pub struct Hinted<I> {
    inner: I,
    left: usize,
    kind: u8,
}

impl<I> Hinted<I> {
    pub fn new(inner: I, pairs: &[(String, String)]) -> Self {
        let kind = (pairs.iter().map(|(k, v)| k.len() + 3 * v.len()).sum::<usize>() % 6) as u8;
        Hinted { inner, left: pairs.len(), kind }
    }
}

impl<I: Iterator> Iterator for Hinted<I> {
    type Item = I::Item;

    fn next(&mut self) -> Option<I::Item> {
        let x = self.inner.next();
        if x.is_some() {
            self.left -= 1;
        }
        x
    }

    fn size_hint(&self) -> (usize, Option<usize>) {
        match self.kind {
            0 => (self.left, Some(self.left)),
            1 => (0, None),
            2 => (0, Some(usize::MAX)),
            3 => (0, Some(isize::MAX as usize)),
            4 => (self.left, None),
            _ => (self.left.min(1), Some(self.left + 1000)),
        }
    }
}

fn real_list(q: &Qualifiers) -> String {
    format!("{:?}", q.iter().map(|(k, v)| (k.as_str().to_string(), v.to_string())).collect::<Vec<_>>())
}

fn hash_of<T: Hash>(v: &T) -> u64 {
    let mut h = DefaultHasher::new();
    v.hash(&mut h);
    h.finish()
}

fn ropt(v: Option<&str>) -> String {
    opt(v)
}

/// The same operation on the real collection, rendered the same way.
pub fn apply_real(q: &mut Qualifiers, op: &QOp) -> String {
    match op {
        QOp::Insert(k, v) => match q.insert(k.as_str(), v.as_str()) {
            Ok(r) => format!("Ok({:?})", r.as_str()),
            Err(e) => format!("Err({e:?})"),
        },
        QOp::Remove(k) => ropt(q.remove(k.as_str()).as_deref()),
        QOp::Get(k) => ropt(q.get(k.as_str())),
        QOp::GetMut(k, nv) => match q.get_mut(k.as_str()) {
            Some(v) => {
                let old = v.to_string();
                *v = SmallString::from(nv.as_str());
                format!("Some({old:?})")
            },
            None => "None".into(),
        },
        QOp::Contains(k) => q.contains_key(k.as_str()).to_string(),
        QOp::Index(k) => format!("{:?}", q[k.as_str()].as_str()),
        QOp::IndexMut(k, nv) => {
            let slot = &mut q[k.as_str()];
            let old = slot.to_string();
            *slot = SmallString::from(nv.as_str());
            format!("{old:?}")
        },
        QOp::EntryClassify(k) => match q.entry(k.as_str()) {
            Ok(Entry::Occupied(_)) => "Occupied".into(),
            Ok(Entry::Vacant(_)) => "Vacant".into(),
            Err(e) => format!("Err({e:?})"),
        },
        QOp::EntryOrInsert(k, v) => match q.entry(k.as_str()) {
            Ok(e) => format!("{:?}", e.or_insert(v.as_str()).as_str()),
            Err(e) => format!("Err({e:?})"),
        },
        QOp::EntryOrInsertWith(k, v) => match q.entry(k.as_str()) {
            Ok(e) => format!("{:?}", e.or_insert_with(|| v.as_str()).as_str()),
            Err(e) => format!("Err({e:?})"),
        },
        QOp::EntryAndModifyOrInsert(k, app, v) => match q.entry(k.as_str()) {
            Ok(e) => format!("{:?}", e.and_modify(|x| x.push_str(app)).or_insert(v.as_str()).as_str()),
            Err(e) => format!("Err({e:?})"),
        },
        QOp::OccGet(k) => match q.entry(k.as_str()) {
            Ok(Entry::Occupied(o)) => format!("{:?}", o.get()),
            Ok(Entry::Vacant(_)) => "Vacant".into(),
            Err(e) => format!("Err({e:?})"),
        },
        QOp::OccGetMut(k, nv) => match q.entry(k.as_str()) {
            Ok(Entry::Occupied(mut o)) => {
                let old = o.get_mut().to_string();
                *o.get_mut() = SmallString::from(nv.as_str());
                format!("{old:?}")
            },
            Ok(Entry::Vacant(_)) => "Vacant".into(),
            Err(e) => format!("Err({e:?})"),
        },
        QOp::OccIntoMut(k, nv) => match q.entry(k.as_str()) {
            Ok(Entry::Occupied(o)) => {
                let r = o.into_mut();
                let old = r.to_string();
                *r = SmallString::from(nv.as_str());
                format!("{old:?}")
            },
            Ok(Entry::Vacant(_)) => "Vacant".into(),
            Err(e) => format!("Err({e:?})"),
        },
        QOp::OccInsert(k, nv) => match q.entry(k.as_str()) {
            Ok(Entry::Occupied(mut o)) => format!("{:?}", o.insert(nv.as_str()).as_str()),
            Ok(Entry::Vacant(_)) => "Vacant".into(),
            Err(e) => format!("Err({e:?})"),
        },
        QOp::OccRemove(k) => match q.entry(k.as_str()) {
            Ok(Entry::Occupied(o)) => format!("{:?}", o.remove().as_str()),
            Ok(Entry::Vacant(_)) => "Vacant".into(),
            Err(e) => format!("Err({e:?})"),
        },
        QOp::OccRemoveEntry(k) => match q.entry(k.as_str()) {
            Ok(Entry::Occupied(o)) => {
                let (k, v) = o.remove_entry();
                format!("({:?}, {:?})", k.as_str(), v.as_str())
            },
            Ok(Entry::Vacant(_)) => "Vacant".into(),
            Err(e) => format!("Err({e:?})"),
        },
        QOp::VacInsert(k, v) => match q.entry(k.as_str()) {
            Ok(Entry::Vacant(e)) => format!("{:?}", e.insert(v.as_str()).as_str()),
            Ok(Entry::Occupied(_)) => "Occupied".into(),
            Err(e) => format!("Err({e:?})"),
        },
        QOp::InsertTyped(i, v) => {
            let v = v.as_str();
            match i {
                0 => q.insert_typed(RepositoryUrl::from(v)),
                1 => q.insert_typed(DownloadUrl::from(v)),
                2 => q.insert_typed(VcsUrl::from(v)),
                3 => q.insert_typed(FileName::from(v)),
                4 => q.insert_typed(Classifier::from(v)),
                5 => q.insert_typed(MavenType::from(v)),
                6 => q.insert_typed(Platform::from(v)),
                _ => q.insert_typed(MixedKey::from(v)),
            }
            "()".into()
        },
        QOp::TryInsertChecksum(entries) => match q.try_insert_typed(make_checksum(entries)) {
            Ok(()) => "Ok".into(),
            Err(e) => format!("Err({e:?})"),
        },
        QOp::RemoveTyped(i) => {
            match i {
                0 => q.remove_typed::<RepositoryUrl>(),
                1 => q.remove_typed::<DownloadUrl>(),
                2 => q.remove_typed::<VcsUrl>(),
                3 => q.remove_typed::<FileName>(),
                4 => q.remove_typed::<Classifier>(),
                5 => q.remove_typed::<MavenType>(),
                6 => q.remove_typed::<Platform>(),
                _ => q.remove_typed::<MixedKey>(),
            }
            "()".into()
        },
        QOp::GetTyped(i) => match i {
            0 => ropt(q.get_typed::<RepositoryUrl>().as_ref().map(|u| AsRef::<str>::as_ref(u))),
            1 => ropt(q.get_typed::<DownloadUrl>().as_deref()),
            2 => ropt(q.get_typed::<VcsUrl>().as_deref()),
            3 => ropt(q.get_typed::<FileName>().as_deref()),
            4 => ropt(q.get_typed::<Classifier>().as_deref()),
            5 => ropt(q.get_typed::<MavenType>().as_deref()),
            6 => ropt(q.get_typed::<Platform>().as_deref()),
            _ => ropt(q.get_typed::<MixedKey>().map(|m| m.0)),
        },
        QOp::TryGetTypedUser => match q.try_get_typed::<MixedTry>() {
            Ok(None) => "Ok(None)".into(),
            Ok(Some(m)) => format!("Ok(Some({:?}))", m.0),
            Err(e) => format!("Err({e})"),
        },
        QOp::TryGetChecksum => match q.try_get_typed::<Checksum>() {
            Ok(None) => "Ok(None)".into(),
            Ok(Some(c)) => {
                let mut v: Vec<(String, String)> = c.iter().map(|(a, h)| (a.to_string(), h.raw().to_string())).collect();
                v.sort();
                format!("Ok(Some({v:?}))")
            },
            Err(e) => format!("Err({e:?})"),
        },
        QOp::ContainsTyped(i) => match i {
            0 => q.contains_typed::<RepositoryUrl>(),
            1 => q.contains_typed::<DownloadUrl>(),
            2 => q.contains_typed::<VcsUrl>(),
            3 => q.contains_typed::<FileName>(),
            4 => q.contains_typed::<Classifier>(),
            5 => q.contains_typed::<MavenType>(),
            6 => q.contains_typed::<Platform>(),
            _ => q.contains_typed::<MixedKey>() && q.contains_typed::<MixedTry>() == q.contains_typed::<MixedKey>(),
        }
        .to_string(),
        QOp::Retain(p) => {
            let mut calls = 0;
            q.retain(|k, v| p.eval_real(k, v, &mut calls));
            format!("predicate-calls={calls}")
        },
        QOp::RetainMut(p, app) => {
            let mut calls = 0;
            q.retain_mut(|k, v| {
                let keep = p.eval_real(k, v, &mut calls);
                v.push_str(app);
                keep
            });
            format!("predicate-calls={calls}")
        },
        QOp::Clear => {
            q.clear();
            "()".into()
        },
        QOp::Reserve(n) => {
            // capacity is not part of the property: only that content and order are untouched
            q.reserve(*n as usize);
            let _ = q.capacity();
            "capacity-ok".into()
        },
        QOp::ReserveExact(n) => {
            // capacity is not part of the property: only that content and order are untouched
            q.reserve_exact(*n as usize);
            let _ = q.capacity();
            "capacity-ok".into()
        },
        QOp::IterFwd => real_list(q),
        QOp::IntoIterRef => {
            let mut v = Vec::new();
            for (k, val) in &*q {
                v.push((k.as_str().to_string(), val.to_string()));
            }
            format!("{v:?}")
        },
        QOp::IterAdapters(front, back) => {
            let (front, back) = (*front, *back);
            let a = iterator_methods!(
                {
                    let mut it = q.iter();
                    for _ in 0..front {
                        it.next();
                    }
                    for _ in 0..back {
                        it.next_back();
                    }
                    it
                },
                |x: (&purl::qualifiers::QualifierKey, &str)| (x.0.as_str().to_string(), x.1.to_string()),
                |x: &(&purl::qualifiers::QualifierKey, &str)| x.1.len()
            );
            let b = iterator_methods!(
                {
                    let mut it = q.iter_mut();
                    for _ in 0..front {
                        it.next();
                    }
                    for _ in 0..back {
                        it.next_back();
                    }
                    it
                },
                |x: (&purl::qualifiers::QualifierKey, &mut SmallString)| (x.0.as_str().to_string(), x.1.to_string()),
                |x: &(&purl::qualifiers::QualifierKey, &mut SmallString)| x.1.len()
            );
            let two = iterator_pair_methods!(
                {
                    let mut it = q.iter();
                    for _ in 0..front {
                        it.next();
                    }
                    for _ in 0..back {
                        it.next_back();
                    }
                    it
                },
                |x: (&purl::qualifiers::QualifierKey, &str)| (x.0.as_str().to_string(), x.1.to_string())
            );
            format!("iter:\n{a}\n{two}\niter_mut:\n{b}")
        },
        QOp::IterBack => format!("{:?}", q.iter().rev().map(|(k, v)| (k.as_str().to_string(), v.to_string())).collect::<Vec<_>>()),
        QOp::IterInterleaved(bits) => {
            let mut it = q.iter();
            let mut out = String::new();
            let mut step = 0;
            loop {
                let l = it.len();
                let sh = it.size_hint();
                if sh != (l, Some(l)) {
                    out.push_str(&format!("[size_hint {sh:?} != len {l}]"));
                }
                out.push_str(&format!("[len={l}]"));
                if l == 0 {
                    // an exhausted iterator must stay exhausted from both ends
                    let a = it.next().is_none();
                    let b = it.next_back().is_none();
                    out.push_str(&format!("{},{}", if a { "None" } else { "Some" }, if b { "None" } else { "Some" }));
                    break;
                }
                let item = if bits >> (step % 32) & 1 == 1 { it.next_back() } else { it.next() };
                match item {
                    Some((k, v)) => out.push_str(&format!("{:?}", (k.as_str().to_string(), v.to_string()))),
                    None => {
                        out.push_str("None-too-early");
                        break;
                    },
                }
                step += 1;
            }
            out
        },
        QOp::IterMutAppend(app) => {
            let mut it = q.iter_mut();
            let l = it.len();
            let mut n = 0;
            while let Some((_, v)) = it.next() {
                v.push_str(app);
                n += 1;
                if it.len() + n != l || it.size_hint() != (l - n, Some(l - n)) {
                    return format!("iter_mut len bookkeeping wrong at step {n}");
                }
            }
            real_list(q)
        },
        QOp::IterMutBackFirst(app) => {
            if let Some((_, v)) = q.iter_mut().next_back() {
                v.push_str(app);
            }
            real_list(q)
        },
        QOp::IntoIterMutAppend(app) => {
            for (_, v) in &mut *q {
                v.push_str(app);
            }
            real_list(q)
        },
        QOp::LenIsEmpty => format!("{},{}", q.len(), q.is_empty()),
        QOp::CloneEqHash => {
            let c = q.clone();
            {
                let qr: &Qualifiers = q;
                (c == *qr && hash_of(&c) == hash_of(qr) && c.cmp(qr) == std::cmp::Ordering::Equal && c.partial_cmp(qr) == Some(std::cmp::Ordering::Equal)).to_string()
            }
        },
        QOp::CloneFrom(pairs) => {
            let mut other = Qualifiers::default();
            for (k, v) in pairs {
                let _ = other.insert(k.as_str(), v.as_str());
            }
            q.clone_from(&other);
            real_list(q)
        },
        QOp::TryFromIter(pairs) => match Qualifiers::try_from_iter(Hinted::new(pairs.iter().map(|(k, v)| (k.as_str(), v.as_str())), pairs)) {
            Ok(n) => {
                *q = n;
                format!("Ok({})", real_list(q))
            },
            Err(e) => format!("Err({e:?})"),
        },
        QOp::Rebuild(seed) => {
            let mut items: Vec<(String, String)> = q.iter().map(|(k, v)| (k.as_str().to_string(), v.to_string())).collect();
            let mut r = Rng::new(*seed);
            r.shuffle(&mut items);
            let mut other = Qualifiers::default();
            for (k, v) in &items {
                let kk: String = k.chars().map(|c| if r.coin() { c.to_ascii_uppercase() } else { c }).collect();
                match r.below(3) {
                    0 => {
                        let _ = other.insert(kk.as_str(), v.as_str());
                    },
                    1 => {
                        if let Ok(e) = other.entry(kk.as_str()) {
                            e.or_insert(v.as_str());
                        }
                    },
                    _ => {
                        // insert a wrong value first, then overwrite through another case variant
                        let _ = other.insert(k.as_str(), "tmp");
                        let _ = other.insert(kk.as_str(), v.as_str());
                    },
                }
            }
            let qr: &Qualifiers = q;
            let same = other == *qr && hash_of(&other) == hash_of(qr) && other.cmp(qr) == std::cmp::Ordering::Equal && other.partial_cmp(qr) == Some(std::cmp::Ordering::Equal);
            if same {
                "true".into()
            } else {
                format!("rebuilt {} vs {}: eq={} hash_eq={} cmp={:?}", real_list(&other), real_list(q), other == *q, hash_of(&other) == hash_of(q), other.cmp(q))
            }
        },
        QOp::CmpWith(pairs) => {
            let mut other = Qualifiers::default();
            for (k, v) in pairs {
                let _ = other.insert(k.as_str(), v.as_str());
            }
            let c = (*q).cmp(&other);
            let qr: &Qualifiers = q;
            let consistent = qr.partial_cmp(&other) == Some(c) && other.cmp(qr) == c.reverse();
            if consistent {
                format!("{:?},{}", c, *q == other)
            } else {
                format!("inconsistent ordering: cmp={c:?} partial_cmp={:?} reverse={:?}", qr.partial_cmp(&other), other.cmp(qr))
            }
        },
        QOp::KeyCmp(k, s) => match q.iter().find(|(qk, _)| qk.as_str() == ascii_lower(k)) {
            Some((qk, _)) if key_ok(k) => {
                let eq = *qk == *s.as_str();
                let eq2 = qk == &s.to_string();
                if eq != eq2 {
                    return "PartialEq<&str> and PartialEq<String> disagree".into();
                }
                format!("{},{:?}", eq, qk.partial_cmp(s.as_str()))
            },
            _ => "absent".into(),
        },
        QOp::KeyDerefAsRef(k) => match q.iter().find(|(qk, _)| qk.as_str() == ascii_lower(k)) {
            Some((qk, _)) if key_ok(k) => {
                let d: &str = qk;
                let a: &str = qk.as_ref();
                let s = SmallString::from(qk);
                let s2 = SmallString::from(qk.clone());
                if d != a || d != s.as_str() || d != qk.as_str() || d != s2.as_str() {
                    return "deref/as_ref/into disagree".into();
                }
                format!("{d:?}")
            },
            _ => "absent".into(),
        },
    }
}

/// One lock-step transition. Returns the failure if real and model disagree.
pub fn step(q: &mut Qualifiers, m: &mut M, op: &QOp) -> Option<Fail> {
    let before = list(m);
    let want = apply_model(m, op);
    let got = guard("Qualifiers op", || apply_real(q, op));
    let got_s = match &got {
        Out::Ok(s) => s.clone(),
        Out::Panic(p) => {
            // (the hook keeps the first 160 characters of the message: a long key pushes the
            // words after it out, so only the beginning is matched)
            if want == PANIC && p.starts_with("Qualifier ") {
                PANIC.to_string()
            } else {
                format!("PANIC[{p}]")
            }
        },
        Out::Err(e) => e.clone(),
    };
    // a refusal is a refusal: the statement does not name the error variant
    let both_refused = got_s.starts_with("Err(") && want.starts_with("Err(");
    if got_s != want && !both_refused {
        return Some(Fail::tagged("result-differs", op.form(), format!("on content {before} the operation {op:?} returned {got_s}; the reference map gives {want}")));
    }
    let state = real_list(q);
    let mstate = format!("{:?}", m.iter().map(|(k, v)| (k.clone(), v.clone())).collect::<Vec<_>>());
    if state != mstate {
        return Some(Fail::tagged("content-differs", op.form(), format!("on content {before} after {op:?} the collection holds {state}; the reference map holds {mstate}")));
    }
    if q.len() != m.len() || q.is_empty() != m.is_empty() {
        return Some(Fail::tagged("len-differs", op.form(), format!("after {op:?}: len() {} vs {}", q.len(), m.len())));
    }
    None
}

/// Run a whole history from the empty collection.
pub fn run_history(ops: &[QOp]) -> Option<(usize, Fail)> {
    let mut q = Qualifiers::default();
    let mut m = M::new();
    for (i, op) in ops.iter().enumerate() {
        if let Some(f) = step(&mut q, &mut m, op) {
            return Some((i, f));
        }
    }
    None
}

// --- workloads -------------------------------------------------------------------------------

const UK: [&str; 15] = ["a", "A", "k", "K", "c", "", "!", "a b", "é", "\u{212A}", "a\u{17F}", "a²", "١", "\u{131}", "\u{212A}\u{212A}"];
const UV: [&str; 3] = ["", "x", "Y"];

fn universe_ops() -> Vec<QOp> {
    let mut v = Vec::new();
    let s = |x: &str| x.to_string();
    for k in UK {
        v.push(QOp::Remove(s(k)));
        v.push(QOp::Get(s(k)));
        v.push(QOp::Contains(s(k)));
        v.push(QOp::Index(s(k)));
        v.push(QOp::EntryClassify(s(k)));
        v.push(QOp::OccGet(s(k)));
        v.push(QOp::OccRemove(s(k)));
        v.push(QOp::OccRemoveEntry(s(k)));
        v.push(QOp::KeyDerefAsRef(s(k)));
        for val in UV {
            v.push(QOp::Insert(s(k), s(val)));
            v.push(QOp::GetMut(s(k), s(val)));
            v.push(QOp::IndexMut(s(k), s(val)));
            v.push(QOp::EntryOrInsert(s(k), s(val)));
            v.push(QOp::EntryOrInsertWith(s(k), s(val)));
            v.push(QOp::EntryAndModifyOrInsert(s(k), s("+"), s(val)));
            v.push(QOp::OccGetMut(s(k), s(val)));
            v.push(QOp::OccIntoMut(s(k), s(val)));
            v.push(QOp::OccInsert(s(k), s(val)));
            v.push(QOp::VacInsert(s(k), s(val)));
        }
        for other in ["a", "A", "B", "c", "ab", ""] {
            v.push(QOp::KeyCmp(s(k), s(other)));
        }
        v.push(QOp::Retain(Pred::KeyEq(s(k))));
        v.push(QOp::Retain(Pred::KeyNe(s(k))));
    }
    for p in [Pred::All, Pred::Nothing, Pred::KeyLe(s("a")), Pred::KeyLe(s("b")), Pred::ValueNonEmpty, Pred::SkipFirst(0), Pred::SkipFirst(1), Pred::SkipFirst(2), Pred::SkipFirst(3)] {
        v.push(QOp::Retain(p.clone()));
        v.push(QOp::RetainMut(p, s("~")));
    }
    v.push(QOp::InsertTyped(0, s("u")));
    v.push(QOp::InsertTyped(7, s("m")));
    v.push(QOp::InsertTyped(7, s("m!")));
    v.push(QOp::RemoveTyped(7));
    v.push(QOp::GetTyped(7));
    v.push(QOp::ContainsTyped(7));
    v.push(QOp::TryGetTypedUser);
    v.push(QOp::InsertTyped(4, s("")));
    v.push(QOp::RemoveTyped(0));
    v.push(QOp::GetTyped(0));
    v.push(QOp::ContainsTyped(0));
    v.push(QOp::TryGetChecksum);
    v.push(QOp::TryInsertChecksum(vec![]));
    v.push(QOp::TryInsertChecksum(vec![(s("B"), CsVal::Bytes(vec![255])), (s("a"), CsVal::Raw(s("0A")))]));
    v.push(QOp::TryInsertChecksum(vec![(s("a"), CsVal::Raw(s("zz")))]));
    v.push(QOp::Clear);
    v.push(QOp::Reserve(3));
    v.push(QOp::ReserveExact(5));
    v.push(QOp::IterFwd);
    v.push(QOp::IterBack);
    for bits in 0..8 {
        v.push(QOp::IterInterleaved(bits));
    }
    v.push(QOp::IterMutAppend(s("!")));
    v.push(QOp::IterMutBackFirst(s("!")));
    for (f, b) in [(0, 0), (1, 0), (0, 1), (1, 1), (2, 2)] {
        v.push(QOp::IterAdapters(f, b));
    }
    v.push(QOp::IntoIterRef);
    v.push(QOp::IntoIterMutAppend(s("?")));
    v.push(QOp::LenIsEmpty);
    v.push(QOp::CloneEqHash);
    for seed in 0..6 {
        v.push(QOp::Rebuild(seed));
    }
    let pair_sets: [&[(&str, &str)]; 10] = [
        &[],
        &[("a", "x")],
        &[("A", "x")],
        &[("a", "x"), ("A", "Y")],
        &[("b", ""), ("a", "Y")],
        &[("a", "x"), ("!", "x")],
        &[("", "x")],
        &[("c", "x"), ("b", "x"), ("a", "x")],
        &[("b", "1"), ("a", "2"), ("b", "3")],
        &[("b", "1"), ("a", "2"), ("B", "1")],
    ];
    for ps in pair_sets {
        let ps: Vec<(String, String)> = ps.iter().map(|(k, v)| (s(k), s(v))).collect();
        v.push(QOp::TryFromIter(ps.clone()));
        v.push(QOp::CloneFrom(ps.clone()));
        v.push(QOp::CmpWith(ps.into_iter().filter(|(k, _)| key_ok(k)).collect()));
    }
    v
}

fn rand_key(r: &mut Rng, pool: &[String]) -> String {
    if r.chance(1, 20) {
        // an invalid look-alike of a pool key: one letter replaced by a non-ASCII character
        // whose lower- or upper-case form is that letter
        let k = r.pick(pool).clone();
        return k
            .chars()
            .map(|c| match c {
                'k' | 'K' if r.coin() => '\u{212A}',
                's' | 'S' if r.coin() => '\u{17F}',
                'i' | 'I' if r.coin() => *r.pick(&['\u{131}', '\u{130}']),
                _ => c,
            })
            .collect();
    }
    match r.below(10) {
        0..=5 => {
            let k = r.pick(pool).clone();
            if r.coin() {
                k.chars().map(|c| if r.coin() { c.to_ascii_uppercase() } else { c.to_ascii_lowercase() }).collect()
            } else {
                k
            }
        },
        6 => {
            let k = r.pick(&TYPED_KEYS).to_string();
            // a well-known key, or a valid key one small edit away from it (`vcs-url`)
            if r.coin() { k } else { crate::spell::near_key(r, &k) }
        },
        7 => r.pick(&["checksum", "Checksum"]).to_string(),
        8 if r.coin() => {
            let k = r.pick(pool).clone();
            crate::spell::near_key(r, &k)
        },
        8 => gen::mixed_string(r, 0, 6, 60),
        _ => crate::spell::gen_key(r),
    }
}

fn rand_val(r: &mut Rng) -> String {
    if r.chance(1, 10) {
        return gen::boundary_string(r, false);
    }
    match r.below(6) {
        0 => String::new(),
        1 => gen::mixed_string(r, 1, 40, 30),
        _ => gen::mixed_string(r, 1, 5, 20),
    }
}

fn rand_op(r: &mut Rng, pool: &[String]) -> QOp {
    let k = rand_key(r, pool);
    match r.below(44) {
        0..=5 => QOp::Insert(k, rand_val(r)),
        6..=7 => QOp::Remove(k),
        8 => QOp::Get(k),
        9 => QOp::GetMut(k, rand_val(r)),
        10 => QOp::Contains(k),
        11 => QOp::Index(k),
        12 => QOp::IndexMut(k, rand_val(r)),
        13 => QOp::EntryClassify(k),
        14 => QOp::EntryOrInsert(k, rand_val(r)),
        15 => QOp::EntryOrInsertWith(k, rand_val(r)),
        16 => QOp::EntryAndModifyOrInsert(k, rand_val(r), rand_val(r)),
        17 => QOp::OccGet(k),
        18 => QOp::OccGetMut(k, rand_val(r)),
        19 => QOp::OccIntoMut(k, rand_val(r)),
        20 => QOp::OccInsert(k, rand_val(r)),
        21 => QOp::OccRemove(k),
        22 => QOp::OccRemoveEntry(k),
        23 => QOp::VacInsert(k, rand_val(r)),
        24 => QOp::InsertTyped(r.below(N_TYPED as usize) as u8, rand_val(r)),
        25 => QOp::TryInsertChecksum(crate::hist::rand_cs_entries(r)),
        26 => QOp::RemoveTyped(r.below(N_TYPED as usize) as u8),
        27 => QOp::GetTyped(r.below(N_TYPED as usize) as u8),
        28 => {
            if r.coin() {
                QOp::TryGetChecksum
            } else {
                QOp::TryGetTypedUser
            }
        },
        29 => QOp::ContainsTyped(r.below(N_TYPED as usize) as u8),
        30 => QOp::Retain(match r.below(7) {
            6 => Pred::SkipFirst(r.below(5) as u8),
            0 => Pred::All,
            1 => Pred::Nothing,
            2 => Pred::KeyLe(r.pick(pool).clone()),
            3 => Pred::ValueNonEmpty,
            4 => Pred::KeyEq(k),
            _ => Pred::KeyNe(k),
        }),
        31 => QOp::RetainMut(match r.below(3) {
            0 => Pred::KeyNe(k),
            1 => Pred::ValueNonEmpty,
            _ => Pred::SkipFirst(r.below(5) as u8),
        }, rand_val(r)),
        32 => {
            if r.chance(1, 6) {
                QOp::Clear
            } else {
                QOp::LenIsEmpty
            }
        },
        33 => {
            if r.coin() {
                QOp::Reserve(r.below(20) as u8)
            } else {
                QOp::ReserveExact(r.below(20) as u8)
            }
        },
        34 if r.coin() => QOp::IterAdapters(r.below(3) as u8, r.below(3) as u8),
        34 => QOp::IterFwd,
        35 => QOp::IterBack,
        36 => QOp::IterInterleaved(r.next() as u32),
        37 => QOp::IterMutAppend(rand_val(r)),
        38 => {
            if r.coin() {
                QOp::IterMutBackFirst(rand_val(r))
            } else {
                QOp::IntoIterMutAppend(rand_val(r))
            }
        },
        39 => {
            if r.coin() {
                QOp::IntoIterRef
            } else {
                QOp::CloneEqHash
            }
        },
        40 => {
            let n = r.below(6);
            QOp::TryFromIter((0..n).map(|_| (rand_key(r, pool), rand_val(r))).collect())
        },
        41 => {
            if r.coin() {
                QOp::Rebuild(r.next())
            } else {
                let n = r.below(8);
                QOp::CloneFrom((0..n).map(|_| (rand_key(r, pool), rand_val(r))).collect())
            }
        },
        42 => {
            let n = r.below(5);
            QOp::CmpWith((0..n).map(|_| (rand_key(r, pool), rand_val(r))).filter(|(k, _)| key_ok(k)).collect())
        },
        _ => {
            if r.coin() {
                QOp::KeyCmp(k, rand_key(r, pool).chars().filter(|c| c.is_ascii()).collect())
            } else {
                QOp::KeyDerefAsRef(k)
            }
        },
    }
}

fn observe(ctx: &mut Ctx, m_before_len: usize, m: &M, op: &QOp, result: &str) {
    ctx.st.set_insert("operation-forms-exercised", op.form().to_string());
    ctx.st.max("max:collection-size", m.len() as u64);
    if result == PANIC {
        ctx.st.count("observed:documented-index-panic");
    }
    if result == "Err(InvalidQualifier)" {
        if matches!(op, QOp::TryFromIter(_)) {
            ctx.st.count("observed:try-from-iter-duplicate-refused");
        } else if op.key().map_or(false, |k| !key_ok(k)) {
            ctx.st.count("observed:invalid-key-refused");
        }
    }
    if let Some(k) = op.key() {
        if key_ok(k) && k.bytes().any(|b| b.is_ascii_uppercase()) && (m.contains_key(&ascii_lower(k)) || m.len() < m_before_len) {
            ctx.st.count("observed:case-variant-lookup-hit");
        }
    }
}

pub fn run(ctx: &mut Ctx) {
    // G5(a): every reachable content over {a,b,c} x {absent, "", x, Y}, built through the real
    // API, then every operation form with every argument combination applied to it
    let ops = universe_ops();
    let mut idx = 0u64;
    for code in 0..64u32 {
        let mut content: Vec<(&str, &str)> = Vec::new();
        // (the middle key is "k": the Kelvin sign lower-cases to it, so an invalid probe that is
        // not refused before the comparison would alias a stored key)
        for (i, k) in ["a", "k", "c"].iter().enumerate() {
            let d = (code >> (2 * i)) & 3;
            if d > 0 {
                content.push((k, UV[(d - 1) as usize]));
            }
        }
        for op in &ops {
            idx += 1;
            if !ctx.mine(idx) {
                continue;
            }
            // build the content in an order / case that depends on the index
            let mut q = Qualifiers::default();
            let mut m = M::new();
            let mut order = content.clone();
            let mut r = Rng::new(idx);
            r.shuffle(&mut order);
            let mut prefix = Vec::new();
            for (k, v) in &order {
                let kk = if r.coin() { k.to_ascii_uppercase() } else { k.to_string() };
                let ins = QOp::Insert(kk, v.to_string());
                if let Some(f) = step(&mut q, &mut m, &ins) {
                    ctx.st.violation("C11.map", format!("C11.map:{}:{}", f.kind, f.tag), f.detail, json!({"ops": [ins]}));
                }
                prefix.push(ins);
            }
            ctx.st.set_insert("exhaustive-contents-reached", list(&m));
            ctx.st.evaluations += 1;
            ctx.st.count("exhaustive-transitions");
            let before = m.len();
            let res = {
                let mut mm = m.clone();
                apply_model(&mut mm, op)
            };
            if op.key().is_some() || m.len() >= 2 {
                ctx.st.nontrivial(fnv(format!("{}|{op:?}", list(&m)).as_bytes()));
            }
            if let Some(f) = step(&mut q, &mut m, op) {
                prefix.push(op.clone());
                ctx.st.violation("C11.map", format!("C11.map:{}:{}", f.kind, f.tag), f.detail, json!({"ops": prefix}));
            }
            observe(ctx, before, &m, op, &res);
        }
    }
    if ctx.worker == 0 {
        ctx.st.exhaustive.push(json!({"name": format!("every content over keys {{a,k,c}} x values {{absent, \"\", x, Y}} (64) x every operation form with every argument from the universe ({} operations)", ops.len()), "size": 64 * ops.len(), "completed": true}));
    }
    // G5(b): long random histories over a small key pool (keys below and above the 23-byte inline limit)
    let mut r = ctx.rng("c11.random");
    for _ in 0..ctx.share(30_000, 1_500_000) {
        // (one history in twelve works on a few dozen short keys, mostly inserting: searches
        // that change strategy with the size of the collection)
        let big = r.chance(1, 12);
        let npool = if big { r.range(33, 80) } else { r.range(2, 6) };
        let mut pool: Vec<String> = Vec::new();
        for _ in 0..npool {
            // fresh keys, well-known keys, and near misses of keys already in the pool
            let mut k = crate::spell::gen_key_among(&mut r, &pool).to_ascii_lowercase();
            if r.chance(1, 5) {
                k.push_str("-a.very_long.key-suffix_0123456789");
            }
            pool.push(k);
        }
        let n = if big { r.range(100, 300) } else { r.range(10, 200) };
        let ops: Vec<QOp> = (0..n)
            .map(|_| {
                if big && r.chance(2, 3) {
                    let k = r.pick(&pool).clone();
                    if r.chance(1, 4) { QOp::Get(k) } else { QOp::Insert(k, rand_val(&mut r)) }
                } else {
                    rand_op(&mut r, &pool)
                }
            })
            .collect();
        ctx.st.count("random-histories");
        let mut q = Qualifiers::default();
        let mut m = M::new();
        for (i, op) in ops.iter().enumerate() {
            ctx.st.evaluations += 1;
            ctx.st.count("random-transitions");
            let before = m.len();
            let res = {
                let mut mm = m.clone();
                apply_model(&mut mm, op)
            };
            if i % 16 == 0 && (op.key().is_some() || m.len() >= 2) {
                ctx.st.nontrivial(fnv(format!("{}|{op:?}", list(&m)).as_bytes()));
            }
            if let Some(f) = step(&mut q, &mut m, op) {
                let (kind, tag) = (f.kind.clone(), f.tag.clone());
                let min = shrink_vec(&ops[..=i], &mut |cs| run_history(cs).map_or(false, |(_, g)| g.kind == kind && g.tag == tag));
                let g = run_history(&min).map(|(_, g)| g).unwrap_or(f);
                ctx.st.violation("C11.map", format!("C11.map:{}:{}", g.kind, g.tag), g.detail, json!({"ops": min}));
                break;
            }
            observe(ctx, before, &m, op, &res);
        }
        ctx.st.sample(|| json!({"history_length": ops.len(), "first_operations": ops.iter().take(6).collect::<Vec<_>>(), "final_content": list(&m)}));
    }
}

pub fn replay(_monitor: &str, case: &Value) -> Result<Option<Fail>, String> {
    let ops: Vec<QOp> = serde_json::from_value(case.get("ops").cloned().unwrap_or(Value::Null)).map_err(|e| e.to_string())?;
    Ok(run_history(&ops).map(|(_, f)| f))
}
