//! C10 — re-building an existing PURL is the identity.
//!
//! Refuted by: `p.clone().into_builder().build()` is `Err`, panics, `!= p`, or prints a
//! different string. The relation itself is the oracle.

use std::fmt::Debug;
use std::hash::Hash;

use purl::{GenericPurl, PurlShape};
use serde_json::{json, Value};

use super::values::{self, Visitor};
use super::Fail;
use crate::obs::{self, guard, Ctx, Out, Snap, Stats, Tier};
use crate::rng::fnv;

pub const RULE: &str = "a case is one PURL value (parsed or built, one type parameter) that is converted into a builder and built again; non-trivial = the value has a normalisation-sensitive feature (pypi/nuget name, checksum, qualifiers, upper-case in the source type, non-ASCII text); distinct by hash of (type parameter, canonical string)";

pub fn requirements(tier: Tier) -> Vec<(&'static str, u64)> {
    let q = tier == Tier::Quick;
    vec![
        ("values:parsed:String", if q { 50_000 } else { 500_000 }),
        ("values:parsed:SmallString", 50_000),
        ("values:parsed:Purl", 20_000),
        ("values:built:String", 20_000),
        ("values:built:SmallString", 20_000),
        ("values:built:Cow::Owned", 20_000),
        ("values:built:Cow::Borrowed", 20_000),
        ("values:built:PackageType", 20_000),
        ("rebuilt:pypi-or-nuget-name-with-rule-sensitive-char", 1_000),
        ("rebuilt:with-checksum", 1_000),
        ("rebuilt:with-non-ascii", 1_000),
        ("set:package-types-rebuilt", 7),
    ]
}

pub struct C10;

impl Visitor for C10 {
    const MONITOR: &'static str = "C10.rebuild";

    fn visit<T>(&mut self, st: &mut Stats, p: &GenericPurl<T>, tp: &'static str, observe: bool) -> Option<Fail>
    where
        T: PurlShape + Clone + Eq + Hash + Ord + Debug,
        T::Error: Debug,
    {
        let snap = Snap::of(p);
        let c = match obs::show(p) {
            Out::Ok(c) => c,
            o => return Some(Fail::new("format-panicked", o.kind())),
        };
        if observe {
            let mut nontrivial = false;
            if tp == "PackageType" {
                st.set_insert("package-types-rebuilt", snap.ty.clone());
                if (snap.ty == "pypi" || snap.ty == "nuget") && snap.name.chars().any(|c| !c.is_ascii_lowercase() && !c.is_ascii_digit()) {
                    st.count("rebuilt:pypi-or-nuget-name-with-rule-sensitive-char");
                    nontrivial = true;
                }
            }
            if snap.quals.iter().any(|(k, _)| k == "checksum") {
                st.count("rebuilt:with-checksum");
                nontrivial = true;
            }
            if c.contains("%C") || c.contains("%E") || c.contains("%F") || c.contains("%D") {
                st.count("rebuilt:with-non-ascii");
                nontrivial = true;
            }
            if !snap.quals.is_empty() {
                nontrivial = true;
            }
            if nontrivial {
                st.nontrivial(fnv(format!("{tp}\u{0}{c}").as_bytes()));
            }
            st.sample(|| json!({"type_parameter": tp, "value": c, "rebuild": "Ok, equal, same string"}));
        }
        let q = match obs::guard_res("into_builder().build()", || p.clone().into_builder().build()) {
            Out::Ok(q) => q,
            o => {
                return Some(Fail::tagged("rebuild-failed", o.kind(), format!("{c:?} ({tp}): into_builder().build() gave {}", o.kind())));
            },
        };
        match guard("PartialEq", || q == *p) {
            Out::Ok(true) => {},
            o => {
                let qs = Snap::of(&q);
                return Some(Fail::tagged(
                    "rebuild-not-equal",
                    snap.diff(&qs).unwrap_or("stored-parts"),
                    format!("{c:?} ({tp}): re-built value differs ({}): {snap:?} became {qs:?}", o.kind()),
                ));
            },
        }
        // clone_from onto differently shaped values reproduces the value (buffer-reusing clones)
        for extra in [0usize, 3] {
            let mut b = p.clone().into_builder().without_qualifiers().with_version("other").with_subpath("x/y");
            for i in 0..extra + snap.quals.len() {
                b = match b.clone().with_qualifier(format!("zz{i}"), "v") {
                    Ok(nb) => nb,
                    Err(_) => b,
                };
            }
            if let Out::Ok(mut other) = obs::build(b) {
                match guard("clone_from", || {
                    other.clone_from(p);
                    other == *p
                }) {
                    Out::Ok(true) => {},
                    o => return Some(Fail::tagged("clone-from-differs", "", format!("{c:?} ({tp}): clone_from onto another value gave {}", o.kind()))),
                }
            }
        }
        match obs::show(&q) {
            Out::Ok(c2) if c2 == c => None,
            o => Some(Fail::tagged("rebuild-prints-differently", "", format!("{c:?} ({tp}): re-built value prints as {}", match o { Out::Ok(x) => x, o => o.kind() }))),
        }
    }
}

pub fn run(ctx: &mut Ctx) {
    let mut v = C10;
    values::standard_workload(&mut v, ctx, "c10", 5, 3);
}

pub fn replay(_monitor: &str, case: &Value) -> Result<Option<Fail>, String> {
    values::replay(&mut C10, case)
}
