//! C12 — checksum qualifier: one canonical text, typed round trip, order independence.
//!
//! Model R6 (`BTreeMap<lower(alg), hex>`) against the real `Checksum` (a randomly seeded
//! `HashMap`): every history is executed on several fresh instances (each with its own hash
//! keys); the iteration order that `iter()` exposes is recorded so that the evidence shows how
//! many distinct hash orders were actually seen producing the one canonical text.

use std::collections::{BTreeMap, BTreeSet};

use purl::qualifiers::well_known::Checksum;
use purl::{GenericPurlBuilder, SmallString};
use serde::{Deserialize, Serialize};
use serde_json::{json, Value};

use super::Fail;
use crate::model::{ascii_lower, checksum_text, lower};
use crate::obs::{self, guard, guard_res, Ctx, Out, Tier};
use crate::rng::{fnv, Rng};
use crate::shrink::shrink_vec;

pub const RULE: &str = "a case is one checksum history (inserts / raw inserts / removes in some order and letter case) executed on a fresh instance; non-trivial = the final set has >= 2 entries, or an entry was replaced through another letter case, or an entry was removed; distinct by hash of the history";

pub fn requirements(tier: Tier) -> Vec<(&'static str, u64)> {
    let q = tier == Tier::Quick;
    vec![
        ("histories", if q { 20_000 } else { 1_000_000 }),
        ("instances", if q { 100_000 } else { 5_000_000 }),
        ("sets-with>=4-entries", 2_000),
        // (how many distinct hash iteration orders were seen is reported, not required: an
        // implementation that keeps the entries in an ordered map satisfies the property too)
        ("permutation-groups-complete", 1_000),
        ("replaced-through-other-case", 1_000),
        ("removed", 1_000),
        ("purl-parsed-with-checksum", 2_000),
        ("purl-built-with-checksum", 2_000),
        ("non-ascii-case-variant-used", 100),
        ("empty-set", 10),
    ]
}

#[derive(Clone, Debug, Serialize, Deserialize, PartialEq, Eq, Hash)]
pub enum COp {
    Insert(String, Vec<u8>),
    /// insert_raw with hex text in arbitrary letter case
    InsertRaw(String, String),
    /// remove by the stored (lower-case) name
    Remove(String),
}

type Model = BTreeMap<String, String>;

pub fn model_of(ops: &[COp]) -> Model {
    let mut m = Model::new();
    for op in ops {
        match op {
            COp::Insert(a, b) => {
                m.insert(lower(a), hex::encode(b));
            },
            COp::InsertRaw(a, h) => {
                m.insert(lower(a), h.clone());
            },
            COp::Remove(a) => {
                m.remove(a);
            },
        }
    }
    m
}

pub fn real_of(ops: &[COp]) -> Checksum<'static> {
    let mut c = Checksum::default();
    for op in ops {
        match op {
            COp::Insert(a, b) => c.insert(a, b.clone()),
            COp::InsertRaw(a, h) => c.insert_raw(a, h.clone()),
            COp::Remove(a) => c.remove(a),
        }
    }
    c
}

/// Judge one fresh instance. Returns the iteration order exposed by `iter()`.
pub fn judge_instance(ops: &[COp]) -> (Option<String>, Option<Fail>) {
    let m = model_of(ops);
    let want_text = checksum_text(&m);
    let built = guard("Checksum inserts", || real_of(ops));
    let c = match built {
        Out::Ok(c) => c,
        o => return (None, Some(Fail::tagged("panicked", o.kind(), format!("history {ops:?}: {}", o.kind())))),
    };
    // (1) typed accessors agree with the model, before serialising
    let mut order: Vec<String> = Vec::new();
    let mut seen: BTreeMap<String, String> = BTreeMap::new();
    for (a, v) in c.iter() {
        order.push(a.to_string());
        seen.insert(a.to_string(), v.raw().to_string());
    }
    if seen != m {
        return (None, Some(Fail::tagged("entries-differ", "iter", format!("after {ops:?} iter() yields {seen:?}; the model holds {m:?}"))));
    }
    let algs: BTreeSet<String> = c.algorithms().map(str::to_owned).collect();
    if algs != m.keys().cloned().collect() {
        return (None, Some(Fail::tagged("entries-differ", "algorithms", format!("after {ops:?} algorithms() = {algs:?}; the model holds {:?}", m.keys()))));
    }
    let via_into: BTreeMap<String, String> = (&c).into_iter().map(|(a, v)| (a.to_string(), v.to_string())).collect();
    if via_into != m {
        return (None, Some(Fail::tagged("entries-differ", "into_iter", format!("after {ops:?} (&checksum).into_iter() yields {via_into:?}"))));
    }
    for (a, h) in &m {
        if c.get_raw(a) != Some(h.as_str()) {
            return (None, Some(Fail::tagged("entries-differ", "get_raw", format!("get_raw({a:?}) = {:?}, model {h:?}", c.get_raw(a)))));
        }
        match c.get::<Vec<u8>>(a) {
            Ok(Some(b)) if hex::encode(&b) == ascii_lower(h) => {},
            o => return (None, Some(Fail::tagged("decode-differs", "get", format!("get::<Vec<u8>>({a:?}) = {o:?}; inserted hex {h:?}")))),
        }
        match c.get_value(a).map(|v| (v.raw().to_string(), v.decode::<Vec<u8>>())) {
            Some((raw, Ok(b))) if raw == *h && hex::encode(&b) == ascii_lower(h) => {},
            o => return (None, Some(Fail::tagged("decode-differs", "get_value", format!("get_value({a:?}) = {o:?}; inserted hex {h:?}")))),
        }
    }
    // (2) one canonical text
    let text = match guard_res("SmallString::try_from(Checksum)", || SmallString::try_from(c.clone())) {
        Out::Ok(t) => t.to_string(),
        o => return (None, Some(Fail::tagged("serialise-failed", o.kind(), format!("serialising the checksum after {ops:?}: {}", o.kind())))),
    };
    if text != want_text {
        return (
            Some(order.join("\u{1}")),
            Some(Fail::tagged("text-not-canonical", "", format!("after {ops:?} (hash order {order:?}) the text is {text:?}; canonical is {want_text:?}"))),
        );
    }
    // (3) the text parses back to the same entries
    if !m.is_empty() {
        match guard_res("Checksum::try_from(&str)", || Checksum::try_from(text.as_str())) {
            Out::Ok(back) => {
                let b: BTreeMap<String, String> = back.iter().map(|(a, v)| (a.to_string(), v.raw().to_string())).collect();
                let want: BTreeMap<String, String> = m.iter().map(|(a, h)| (a.clone(), ascii_lower(h))).collect();
                if b != want {
                    return (None, Some(Fail::tagged("parse-back-differs", "", format!("text {text:?} parses back to {b:?}; entries are {want:?}"))));
                }
                for (a, h) in &want {
                    match back.get::<Vec<u8>>(a) {
                        Ok(Some(bytes)) if hex::encode(&bytes) == *h => {},
                        o => return (None, Some(Fail::tagged("decode-differs", "parse-back", format!("text {text:?}: get({a:?}) = {o:?}")))),
                    }
                }
            },
            o => return (None, Some(Fail::tagged("parse-back-failed", o.kind(), format!("text {text:?} does not parse back: {}", o.kind())))),
        }
    }
    (Some(order.join("\u{1}")), None)
}

/// A PURL parsed / built with the checksum carries exactly the canonical text.
pub fn judge_purl(ops: &[COp], spelling: &str) -> Option<Fail> {
    let m = model_of(ops);
    let want = checksum_text(&m);
    let want_opt = if want.is_empty() { None } else { Some(want.as_str()) };
    let want_entries: BTreeMap<String, String> = m.iter().map(|(a, h)| (a.clone(), ascii_lower(h))).collect();
    let check = |how: &str, p: &purl::GenericPurl<String>| -> Option<Fail> {
        let got = p.qualifiers().get("checksum");
        if got != want_opt {
            return Some(Fail::tagged("purl-text-differs", how.to_string(), format!("{how}: the PURL carries checksum {got:?}; canonical is {want_opt:?}")));
        }
        match p.qualifiers().try_get_typed::<Checksum>() {
            Ok(None) if want_opt.is_none() => None,
            Ok(Some(c)) => {
                let e: BTreeMap<String, String> = c.iter().map(|(a, v)| (a.to_string(), v.raw().to_string())).collect();
                if e != want_entries {
                    Some(Fail::tagged("purl-typed-entries-differ", how.to_string(), format!("{how}: typed accessor gives {e:?}; entries are {want_entries:?}")))
                } else {
                    None
                }
            },
            o => Some(Fail::tagged("purl-typed-accessor", how.to_string(), format!("{how}: try_get_typed::<Checksum>() = {:?}", o.map(|x| x.is_some())))),
        }
    };
    match obs::parse::<String>(spelling) {
        Out::Ok(p) => {
            if let Some(f) = check("parsed", &p) {
                return Some(Fail::tagged(f.kind, f.tag, format!("{spelling:?}: {}", f.detail)));
            }
        },
        o => return Some(Fail::tagged("purl-refused", o.kind(), format!("{spelling:?} (an equivalent spelling of the entries {want_entries:?}) was answered with {}", o.kind()))),
    }
    let cs = real_of(ops);
    let b = GenericPurlBuilder::new("t".to_string(), "n");
    match guard_res("try_with_typed_qualifier", || b.try_with_typed_qualifier(Some(cs))).map(obs::build) {
        Out::Ok(Out::Ok(p)) => {
            if let Some(f) = check("built", &p) {
                return Some(f);
            }
        },
        Out::Ok(o) => return Some(Fail::tagged("purl-build-failed", o.kind(), format!("building with the checksum after {ops:?}: {}", o.kind()))),
        o => return Some(Fail::tagged("purl-build-failed", o.kind(), format!("try_with_typed_qualifier after {ops:?}: {}", o.kind()))),
    }
    if want_opt.is_none() {
        return None;
    }
    // the typed value replaces whatever checksum the PURL carried before: a text set by
    // name, and the checksum of a parsed PURL taken apart again
    let b = GenericPurlBuilder::new("t".to_string(), "n");
    let over = guard_res("with_qualifier, then try_with_typed_qualifier", || b.with_qualifier("checksum", "zz:00").map(|b| b.try_with_typed_qualifier(Some(real_of(ops)))));
    match over {
        Out::Ok(Ok(b)) => match obs::build(b) {
            Out::Ok(p) => {
                if let Some(f) = check("typed value set over a checksum text", &p) {
                    return Some(f);
                }
            },
            o => return Some(Fail::tagged("purl-build-failed", o.kind(), format!("typed checksum set over a checksum text, after {ops:?}: {}", o.kind()))),
        },
        o => return Some(Fail::tagged("purl-build-failed", o.kind(), format!("typed checksum set over a checksum text, after {ops:?}: {}", o.kind()))),
    }
    if let Out::Ok(p) = obs::parse::<String>("pkg:t/n?checksum=ZZ:00,a:11") {
        let b = p.into_builder();
        match guard_res("into_builder, then try_with_typed_qualifier", || b.try_with_typed_qualifier(Some(real_of(ops)))).map(obs::build) {
            Out::Ok(Out::Ok(p)) => {
                if let Some(f) = check("typed value set over a parsed checksum", &p) {
                    return Some(f);
                }
                // and taken out again
                let b = match p.into_builder().try_with_typed_qualifier(None::<Checksum>) {
                    Ok(b) => b,
                    Err(e) => return Some(Fail::new("purl-typed-removal", format!("try_with_typed_qualifier(None::<Checksum>) = Err({e:?})"))),
                };
                match obs::build(b) {
                    Out::Ok(p) if p.qualifiers().get("checksum").is_none() => {},
                    Out::Ok(p) => return Some(Fail::new("purl-typed-removal", format!("try_with_typed_qualifier(None::<Checksum>) left checksum {:?}", p.qualifiers().get("checksum")))),
                    o => return Some(Fail::tagged("purl-build-failed", o.kind(), format!("after removing the typed checksum: {}", o.kind()))),
                }
            },
            Out::Ok(o) => return Some(Fail::tagged("purl-build-failed", o.kind(), format!("typed checksum set over a parsed checksum, after {ops:?}: {}", o.kind()))),
            o => return Some(Fail::tagged("purl-build-failed", o.kind(), format!("typed checksum set over a parsed checksum, after {ops:?}: {}", o.kind()))),
        }
    }
    None
}

// --- generation ------------------------------------------------------------------------------

fn rand_alg(r: &mut Rng) -> String {
    if r.chance(1, 3) {
        let a = r.pick(crate::spell::ALG_VOCABULARY).to_string();
        return match r.below(3) {
            0 => a.to_uppercase(),
            _ => a,
        };
    }
    if r.chance(1, 15) {
        return crate::spell::edge_len_alg(r);
    }
    if r.chance(1, 6) {
        return crate::spell::family_alg(r);
    }
    let n = *r.pick(&[0usize, 1, 2, 3, 4, 6, 10, 22, 23, 24, 30]);
    let mut s = String::new();
    for _ in 0..n {
        let c = match r.below(24) {
            0 => ':',
            1 => *r.pick(&['é', 'É', 'æ', 'Æ', 'ǆ', 'ǅ', 'Ǆ', 'ω', 'Ω', 'σ', 'Σ', 'ς', 'ß', '中', 'ᾀ', 'ᾈ', 'İ', 'ı', 'ſ', '\u{212A}']),
            2 => *r.pick(&['-', '_', '.', '/', ' ', '=', '&', '+', '@', '?', '#', '%', '"', '\0']),
            3 => *r.pick(b"0123456789") as char,
            4..=7 => *r.pick(b"ABCDEFGHIJKLMNOPQRSTUVWXYZ") as char,
            _ => *r.pick(b"abcdefghijklmnopqrstuvwxyz") as char,
        };
        s.push(c);
    }
    s
}

/// A spelling of `a` in another letter case with the same per-character lower-casing.
fn case_variant(r: &mut Rng, a: &str) -> (String, bool) {
    let mut non_ascii = false;
    let v: String = a
        .chars()
        .map(|c| {
            if !r.coin() {
                return c;
            }
            let mut up = c.to_uppercase();
            let cand = match (up.next(), up.next()) {
                (Some(u), None) => u,
                _ => return c,
            };
            let cand = if cand == c { c.to_lowercase().next().unwrap_or(c) } else { cand };
            if lower(&cand.to_string()) == lower(&c.to_string()) {
                if cand != c && !c.is_ascii() {
                    non_ascii = true;
                }
                cand
            } else {
                c
            }
        })
        .collect();
    if lower(&v) == lower(a) {
        (v, non_ascii)
    } else {
        (a.to_string(), false)
    }
}

fn hex_case(r: &mut Rng, bytes: &[u8]) -> String {
    hex::encode(bytes).chars().map(|c| if r.coin() { c.to_ascii_uppercase() } else { c }).collect()
}

pub struct Gen {
    pub ops: Vec<COp>,
    pub replaced: bool,
    pub removed: bool,
    pub non_ascii_variant: bool,
}

pub fn gen_history(r: &mut Rng) -> Gen {
    let n = *r.pick(&[0usize, 1, 2, 3, 4, 4, 5, 6, 8, 12]);
    let mut entries: Vec<(String, Vec<u8>)> = Vec::new();
    for _ in 0..n {
        let a = rand_alg(r);
        if entries.iter().any(|(x, _)| lower(x) == lower(&a)) {
            continue;
        }
        // (rarely: digests around 128 and 256 bytes, i.e. 256 and 512 hex digits)
        let len = if r.chance(1, 12) { *r.pick(&[127usize, 128, 129, 200, 255, 256, 257, 1000]) } else { *r.pick(&[0usize, 1, 2, 4, 16, 20, 32, 64]) };
        // (one digest in fifteen is a byte string that itself reads as hex text of a usual
        // size: it is bytes all the same and must come back as given)
        let bytes: Vec<u8> = if r.chance(1, 15) {
            let n = *r.pick(&[32usize, 40, 64, 96, 128]);
            (0..n).map(|_| *r.pick(b"0123456789abcdefABCDEF")).collect()
        } else {
            (0..len).map(|_| r.below(256) as u8).collect()
        };
        entries.push((a, bytes));
    }
    // siblings: names that share a long prefix with a name already drawn and differ in the
    // last character only, with the common prefix ending inside a multi-byte character at
    // byte 8 or 16 (comparators that look at a fixed-size head first)
    if !entries.is_empty() && r.chance(1, 4) {
        let base = entries[r.below(entries.len())].0.clone();
        let mut stem: String = base.chars().filter(|c| c.is_ascii_lowercase() || c.is_ascii_digit()).take(15).collect();
        let head = *r.pick(&[7usize, 8, 15]);
        while stem.len() < head {
            stem.push(*r.pick(b"abcxyz012") as char);
        }
        stem.truncate(head);
        let stem = format!("{stem}{}", r.pick(&["é", "中", "😀", "", "\0"]));
        for tail in ["1", "2", "", "\0", "10"] {
            let a = format!("{stem}{tail}");
            if a.contains(',') || entries.iter().any(|(x, _)| lower(x) == lower(&a)) {
                continue;
            }
            if r.coin() {
                entries.push((a, vec![r.below(256) as u8]));
            }
        }
    }
    let mut g = Gen { ops: vec![], replaced: false, removed: false, non_ascii_variant: false };
    for (a, b) in &entries {
        // sometimes insert an earlier value under another letter case first (must be replaced)
        if r.chance(1, 4) {
            let (v, na) = case_variant(r, a);
            g.non_ascii_variant |= na;
            g.ops.push(COp::Insert(v, vec![0xde, 0xad]));
            g.replaced = true;
        }
        let (v, na) = case_variant(r, a);
        g.non_ascii_variant |= na;
        if r.coin() {
            g.ops.push(COp::Insert(v, b.clone()));
        } else {
            g.ops.push(COp::InsertRaw(v, hex_case(r, b)));
        }
        if r.chance(1, 8) {
            g.ops.push(COp::Remove(lower(a)));
            g.removed = true;
            if r.coin() {
                g.ops.push(COp::Insert(a.clone(), b.clone()));
            }
        }
    }
    g
}

/// The entries of the final set as independent single inserts (used for permutations).
fn final_inserts(r: &mut Rng, ops: &[COp]) -> Vec<COp> {
    model_of(ops)
        .into_iter()
        .map(|(a, h)| {
            let (v, _) = case_variant(r, &a);
            COp::InsertRaw(v, h)
        })
        .collect()
}

fn permutations(n: usize) -> Vec<Vec<usize>> {
    fn go(cur: &mut Vec<usize>, used: &mut Vec<bool>, out: &mut Vec<Vec<usize>>) {
        if cur.len() == used.len() {
            out.push(cur.clone());
            return;
        }
        for i in 0..used.len() {
            if !used[i] {
                used[i] = true;
                cur.push(i);
                go(cur, used, out);
                cur.pop();
                used[i] = false;
            }
        }
    }
    let mut out = Vec::new();
    go(&mut Vec::new(), &mut vec![false; n], &mut out);
    out
}

fn spell_checksum(r: &mut Rng, ops: &[COp]) -> String {
    let m = model_of(ops);
    let mut entries: Vec<String> = m
        .iter()
        .map(|(a, h)| {
            let (v, _) = case_variant(r, a);
            let h: String = h.chars().map(|c| if r.coin() { c.to_ascii_uppercase() } else { c.to_ascii_lowercase() }).collect();
            format!("{v}:{h}")
        })
        .collect();
    r.shuffle(&mut entries);
    let text = entries.join(",");
    let mut enc = String::new();
    for c in text.chars() {
        let keep_raw = c.is_ascii_alphanumeric() || (matches!(c, ':' | ',' | '-' | '_' | '.' | '/' | '=' | '@' | ' ' | '"') && r.coin()) || (!c.is_ascii() && r.coin());
        if keep_raw {
            enc.push(c);
        } else {
            let mut buf = [0u8; 4];
            for b in c.encode_utf8(&mut buf).bytes() {
                if r.coin() {
                    enc.push_str(&format!("%{b:02X}"));
                } else {
                    enc.push_str(&format!("%{b:02x}"));
                }
            }
        }
    }
    let key: String = "checksum".chars().map(|c| if r.coin() { c.to_ascii_uppercase() } else { c }).collect();
    match r.below(3) {
        0 => format!("pkg:t/n?{key}={enc}"),
        1 => format!("pkg:t/n?a=1&{key}={enc}&z=2"),
        _ => format!("pkg:T/ns/n@1?{key}={enc}#s"),
    }
}

fn report(ctx: &mut Ctx, ops: &[COp], f: Fail) {
    let (kind, tag) = (f.kind.clone(), f.tag.clone());
    // a hash-order dependent failure may need several fresh instances to show again
    let fails = |cs: &[COp]| (0..24).any(|_| judge_instance(cs).1.map_or(false, |g| g.kind == kind && g.tag == tag));
    let min = shrink_vec(ops, &mut |cs| fails(cs));
    let g = (0..24).find_map(|_| judge_instance(&min).1).unwrap_or(f);
    ctx.st.violation("C12.checksum", format!("C12.checksum:{}:{}", g.kind, g.tag), g.detail, json!({"kind": "history", "ops": min, "instances": 64}));
}

pub fn run(ctx: &mut Ctx) {
    let mut r = ctx.rng("c12");
    let instances_per_history = if ctx.quick() { 6 } else { 8 };
    let mut digest: u64 = 0;
    for i in 0..ctx.share(24_000, 1_200_000) {
        let g = gen_history(&mut r);
        let m = model_of(&g.ops);
        ctx.st.count("histories");
        if m.is_empty() {
            ctx.st.count("empty-set");
        }
        if g.replaced {
            ctx.st.count("replaced-through-other-case");
        }
        if g.removed {
            ctx.st.count("removed");
        }
        if g.non_ascii_variant {
            ctx.st.count("non-ascii-case-variant-used");
        }
        if m.len() >= 2 || g.replaced || g.removed {
            ctx.st.nontrivial(fnv(format!("{:?}", g.ops).as_bytes()));
        }
        // digest of the texts the *library* produced (compared across processes by ./check)
        if let Out::Ok(t) = guard_res("SmallString::try_from(Checksum)", || SmallString::try_from(real_of(&g.ops))) {
            digest = crate::rng::mix(digest, fnv(t.as_bytes()));
        }
        // several fresh instances (each HashMap gets its own hash keys)
        let mut orders: BTreeSet<String> = BTreeSet::new();
        let mut failed = false;
        for _ in 0..instances_per_history {
            ctx.st.evaluations += 1;
            ctx.st.count("instances");
            let (order, f) = judge_instance(&g.ops);
            if let Some(o) = order {
                orders.insert(o);
            }
            if let Some(f) = f {
                report(ctx, &g.ops, f);
                failed = true;
                break;
            }
        }
        if failed {
            continue;
        }
        // every insertion order of the final set (complete for n <= 4, sampled beyond)
        let singles = final_inserts(&mut r, &g.ops);
        let n = singles.len();
        let perms: Vec<Vec<usize>> = if n <= 4 {
            permutations(n)
        } else {
            (0..12)
                .map(|_| {
                    let mut p: Vec<usize> = (0..n).collect();
                    r.shuffle(&mut p);
                    p
                })
                .collect()
        };
        if n >= 2 && n <= 4 {
            ctx.st.count("permutation-groups-complete");
        }
        for p in &perms {
            let ops: Vec<COp> = p.iter().map(|&i| singles[i].clone()).collect();
            ctx.st.evaluations += 1;
            ctx.st.count("instances");
            let (order, f) = judge_instance(&ops);
            if let Some(o) = order {
                orders.insert(o);
            }
            if let Some(f) = f {
                report(ctx, &ops, f);
                break;
            }
        }
        if n >= 4 {
            ctx.st.count("sets-with>=4-entries");
            if orders.len() >= 2 {
                ctx.st.count("sets-with>=4-entries-and>=2-hash-orders");
            }
        }
        ctx.st.max("max:distinct-hash-orders-for-one-set", orders.len() as u64);
        ctx.st.count_dyn(format!("hash-orders-seen-for-sets-of-size-{:02}:{}", n.min(12), if orders.len() >= 8 { ">=8".to_string() } else { orders.len().to_string() }));
        // PURLs carrying the checksum
        if i % 4 == 0 {
            let s = spell_checksum(&mut r, &g.ops);
            ctx.st.evaluations += 2;
            ctx.st.count("purl-parsed-with-checksum");
            ctx.st.count("purl-built-with-checksum");
            ctx.st.sample(|| json!({"history": g.ops, "canonical_text": checksum_text(&m), "distinct_hash_orders_seen": orders.len(), "purl_spelling": s}));
            if let Some(f) = judge_purl(&g.ops, &s) {
                ctx.st.violation("C12.checksum", format!("C12.checksum:{}:{}", f.kind, f.tag), f.detail, json!({"kind": "purl", "ops": g.ops, "spelling": s}));
            }
        }
    }
    // digest of all canonical texts of this worker: compared across processes by ./check
    ctx.st.set_insert("texts-digest", format!("{:02}:{digest:016x}", ctx.worker));
}

pub fn replay(_monitor: &str, case: &Value) -> Result<Option<Fail>, String> {
    let ops: Vec<COp> = serde_json::from_value(case.get("ops").cloned().unwrap_or(Value::Null)).map_err(|e| e.to_string())?;
    match super::str_field(case, "kind")? {
        "history" => Ok((0..64).find_map(|_| judge_instance(&ops).1)),
        "purl" => Ok(judge_purl(&ops, super::str_field(case, "spelling")?)),
        o => Err(format!("unknown case kind {o}")),
    }
}
