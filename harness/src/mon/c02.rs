//! C02 — parsing recovers exactly the components of any legal spelling.
//!
//! Two independent oracles: the tuple a spelling was generated from (constructive), and the
//! strict left-to-right recogniser R1 on arbitrary strings. They are also checked against each
//! other (a disagreement is a harness error, reported as inconclusive, never as a violation).

use std::fmt::Debug;
use std::str::FromStr;

use purl::{PackageType, PurlShape, SmallString};
use serde_json::{json, Value};

use super::{str_field, Fail};
use crate::gen;
use crate::model::{classify, typed_expect, Class, Comps, TypedExpect};
use crate::obs::{self, guard, Ctx, Out, Snap, Tier};
use crate::rng::fnv;
use crate::shrink::shrink_str;
use crate::spell::{self, FREEDOM_NAMES, N_FREEDOMS};

pub const RULE: &str = "a case is one input string for one instantiation whose expected components are known (generated tuple, or strict recogniser says MustAccept); non-trivial = the string differs from the canonical rendering of its components (some spelling freedom was used); distinct by hash of (instantiation, string)";

fn leak(s: String) -> &'static str {
    Box::leak(s.into_boxed_str())
}

pub fn requirements(tier: Tier) -> Vec<(&'static str, u64)> {
    let mut v = vec![
        ("must-accept:String", if tier == Tier::Quick { 500_000 } else { 5_000_000 }),
        ("must-accept:SmallString", 100_000),
        ("must-accept:Purl", 50_000),
        ("spelling-pairs-compared", 100_000),
        ("interleaved-unjudged-parses", 100_000),
        ("typed:unsupported-type-confirmed", 100),
        ("typed:maven-missing-namespace-confirmed", 10),
    ];
    for i in 0..N_FREEDOMS as usize {
        v.push((leak(format!("freedom:{}", FREEDOM_NAMES[i])), 100));
        for j in (i + 1)..N_FREEDOMS as usize {
            // upper and lower hex escapes exclude each other only within one escape, not within a string
            v.push((leak(format!("freedom-pair:{}+{}", FREEDOM_NAMES[i], FREEDOM_NAMES[j])), 1));
        }
    }
    v
}

/// Judge the parse of `s` against expected components `c` (already type-agnostic).
pub fn judge_expected<T>(s: &str, c: &Comps, typed: bool) -> Option<Fail>
where
    T: FromStr + PurlShape,
    <T as PurlShape>::Error: From<<T as FromStr>::Err> + Debug,
{
    let got = obs::parse::<T>(s).map(|p| Snap::of(&p));
    let want: Result<Comps, &str> = if typed {
        match typed_expect(c) {
            TypedExpect::Ok(t) => Ok(t),
            TypedExpect::UnsupportedType => Err("UnsupportedType"),
            TypedExpect::MissingNamespace => Err("MissingRequiredField(Namespace)"),
        }
    } else {
        Ok(c.clone())
    };
    match (got, want) {
        (Out::Panic(m), _) => Some(Fail::tagged("panicked", m.clone(), format!("from_str({s:?}) panicked: {m}"))),
        (Out::Ok(snap), Ok(w)) => {
            let ws = Snap::from_comps(&w);
            ws.diff(&snap).map(|field| {
                Fail::tagged("components-differ", field, format!("{s:?} spells {ws:?} but parses to {snap:?} ({field} differs)"))
            })
        },
        (Out::Err(e), Ok(w)) => Some(Fail::tagged("legal-spelling-refused", e.clone(), format!("{s:?} is a legal spelling of {w:?} but the parser answers Err({e})"))),
        (Out::Ok(snap), Err(e)) => Some(Fail::tagged("typed-accepted", e, format!("{s:?}: the typed PURL must answer {e} but accepted it as {snap:?}"))),
        // refused, as it must be; the error variant belongs to C05
        (Out::Err(_), Err(_)) => None,
    }
}

/// The string-only oracle: whatever R1 says must be accepted is accepted with those components.
pub fn judge_str<T>(s: &str, typed: bool) -> (bool, Option<Fail>)
where
    T: FromStr + PurlShape,
    <T as PurlShape>::Error: From<<T as FromStr>::Err> + Debug,
{
    match classify(s) {
        Class::MustAccept(c) => (true, judge_expected::<T>(s, &c, typed)),
        _ => (false, None),
    }
}

fn judge_dyn(inst: &str, s: &str) -> (bool, Option<Fail>) {
    match inst {
        "String" => judge_str::<String>(s, false),
        "SmallString" => judge_str::<SmallString>(s, false),
        "Purl" => judge_str::<PackageType>(s, true),
        _ => (false, None),
    }
}

fn report(ctx: &mut Ctx, inst: &'static str, s: &str, f: Fail) {
    let (kind, tag) = (f.kind.clone(), f.tag.clone());
    let min = shrink_str(s, &mut |c| judge_dyn(inst, c).1.map_or(false, |g| g.kind == kind && g.tag == tag));
    let g = judge_dyn(inst, &min).1.unwrap_or(f);
    ctx.st.violation("C02.components", g.signature("C02.components", &min), g.detail, json!({"instantiation": inst, "input": min, "original_input": s}));
}

fn one(ctx: &mut Ctx, inst: &'static str, key: &'static str, s: &str) {
    let (judged, f) = judge_dyn(inst, s);
    if !judged {
        // not judged here, but still executed: a refused or unspecified input must not leave
        // anything behind that changes how the next legal spelling on this thread is parsed
        match inst {
            "String" => drop(obs::parse::<String>(s)),
            "SmallString" => drop(obs::parse::<SmallString>(s)),
            _ => drop(obs::parse::<PackageType>(s)),
        }
        ctx.st.count("interleaved-unjudged-parses");
    }
    if judged {
        ctx.st.evaluations += 1;
        ctx.st.count(key);
        if inst == "Purl" {
            if let Class::MustAccept(c) = classify(s) {
                match typed_expect(&c) {
                    TypedExpect::UnsupportedType => ctx.st.count("typed:unsupported-type-confirmed"),
                    TypedExpect::MissingNamespace => ctx.st.count("typed:maven-missing-namespace-confirmed"),
                    _ => {},
                }
            }
        }
    }
    if let Some(f) = f {
        report(ctx, inst, s, f);
    }
}

fn all_insts(ctx: &mut Ctx, s: &str) {
    one(ctx, "String", "must-accept:String", s);
    one(ctx, "SmallString", "must-accept:SmallString", s);
    one(ctx, "Purl", "must-accept:Purl", s);
}

pub fn run(ctx: &mut Ctx) {
    // G1 — the strict recogniser on the complete token language
    let (w, n, quick) = (ctx.worker, ctx.nworkers, ctx.quick());
    let mut f = |_i: u64, s: &str| all_insts(ctx, s);
    let (total, name) = gen::for_each_g1(quick, w, n, &mut f);
    if ctx.worker == 0 {
        ctx.st.exhaustive.push(json!({"name": format!("{name}; every string the strict recogniser accepts must parse to the recogniser's components"), "size": total, "completed": true, "instantiations": 3}));
    }

    // G2 — tuples x spellings
    let mut single = [0u64; 18];
    let mut pairs = [[0u64; 18]; 18];
    let k_spell = if ctx.quick() { 3 } else { 4 };
    let mut r = ctx.rng("c02.g2");
    for _ in 0..ctx.share(400_000, 10_000_000) {
        let known = r.chance(1, 3);
        let t = spell::gen_tuple(&mut r, known);
        let comps = t.comps();
        let canon = crate::model::render_comps(&comps);
        let mut prev: Option<(String, purl::GenericPurl<String>, String)> = None;
        for _ in 0..k_spell {
            let mask = spell::random_mask(&mut r);
            let sp = spell::spell(&mut r, &t, mask);
            let s = sp.assemble();
            // cross-check of the two oracles (constructive vs recogniser)
            match classify(&s) {
                Class::MustAccept(c) if c == comps => {},
                other => {
                    ctx.st.count("harness-error:recogniser-disagrees-with-generator");
                    ctx.st.set_insert("harness-errors", json!({"harness_error": "R1 vs G2", "tuple": t, "spelling": s, "recogniser": format!("{other:?}")}).to_string());
                    continue;
                },
            }
            for i in 0..18 {
                if sp.used & (1 << i) != 0 {
                    single[i] += 1;
                    for j in (i + 1)..18 {
                        if sp.used & (1 << j) != 0 {
                            pairs[i][j] += 1;
                        }
                    }
                }
            }
            if s != canon {
                ctx.st.nontrivial(fnv(s.as_bytes()));
            }
            ctx.st.sample(|| json!({"tuple": t, "spelling": s, "canonical": canon, "freedoms_used": (0..18).filter(|i| sp.used & (1 << i) != 0).map(|i| FREEDOM_NAMES[i]).collect::<Vec<_>>()}));
            if r.chance(1, 2) {
                // a damaged sibling first (refused part-way through some component)
                let kind = *r.pick(spell::FAULT_KINDS);
                if let Some(bad) = spell::inject(&mut r, &t, &sp, kind) {
                    all_insts(ctx, &bad);
                }
            }
            all_insts(ctx, &s);
            // any two spellings of one tuple: equal PURLs, identical canonical strings
            if let Out::Ok(p) = obs::parse::<String>(&s) {
                if let Out::Ok(c) = obs::show(&p) {
                    if let Some((ps, pp, pc)) = &prev {
                        ctx.st.count("spelling-pairs-compared");
                        let eq = guard("PartialEq", || *pp == p);
                        if eq != Out::Ok(true) || *pc != c {
                            ctx.st.violation(
                                "C02.spellings",
                                format!("C02.spellings:two-spellings-differ:{}", if *pc != c { "string" } else { "eq" }),
                                format!("{ps:?} and {s:?} spell the same components but give canonical strings {pc:?} / {c:?}, == is {}", eq.kind()),
                                json!({"kind": "pair", "a": ps, "b": s}),
                            );
                        }
                    }
                    prev = Some((s.clone(), p, c));
                }
            }
        }
    }
    for i in 0..18 {
        ctx.st.dyn_counters.insert(format!("freedom:{}", FREEDOM_NAMES[i]), single[i]);
        for j in (i + 1)..18 {
            ctx.st.dyn_counters.insert(format!("freedom-pair:{}+{}", FREEDOM_NAMES[i], FREEDOM_NAMES[j]), pairs[i][j]);
        }
    }
    // mutated corpus: judged wherever the recogniser says MustAccept
    let (corpus, _) = gen::load_corpus();
    let mut r = ctx.rng("c02.g10");
    for _ in 0..ctx.share(300_000, 8_000_000) {
        let s = gen::mutate(&mut r, &corpus);
        all_insts(ctx, &s);
    }
}

pub fn replay(_monitor: &str, case: &Value) -> Result<Option<Fail>, String> {
    if case.get("kind").and_then(|v| v.as_str()) == Some("pair") {
        let (a, b) = (str_field(case, "a")?, str_field(case, "b")?);
        let (pa, pb) = (obs::parse::<String>(a), obs::parse::<String>(b));
        return Ok(match (pa, pb) {
            (Out::Ok(x), Out::Ok(y)) => {
                if x == y && x.to_string() == y.to_string() {
                    None
                } else {
                    Some(Fail::new("two-spellings-differ", format!("{a:?} vs {b:?}")))
                }
            },
            _ => Some(Fail::new("two-spellings-differ", "one of the spellings is refused")),
        });
    }
    Ok(judge_dyn(str_field(case, "instantiation")?, str_field(case, "input")?).1)
}
