//! C04 — every PURL value handed out is valid and normalised.
//!
//! An invariant predicate evaluated on every value the workload obtains from the parser or
//! from a successful build(), for the built-in type parameters and for the user-shape family
//! whose finish hook edits the parts arbitrarily.

use std::fmt::Debug;
use std::hash::Hash;

use purl::{GenericPurl, GenericPurlBuilder, PurlShape};
use serde_json::{json, Value};

use super::values::{self, Visitor};
use super::{str_field, Fail};
use crate::gen;
use crate::hist::U_VALUES;
use crate::model::{checksum_canonical, key_ok};
use crate::obs::{self, guard, Ctx, Out, Stats, Tier};
use crate::rng::fnv;
use crate::shapes::{self, Cfg, Shape};

pub const RULE: &str = "a case is one PURL value obtained from the parser or a successful build() (one type parameter or user shape); non-trivial = it exercises at least one invariant clause beyond the name (namespace, version, subpath, >= 1 qualifier, checksum); distinct by hash of (type parameter, canonical string or accessor tuple)";

pub fn requirements(tier: Tier) -> Vec<(&'static str, u64)> {
    let q = tier == Tier::Quick;
    vec![
        ("values:parsed:String", if q { 50_000 } else { 500_000 }),
        ("values:parsed:SmallString", 50_000),
        ("values:parsed:Purl", 20_000),
        ("values:built:String", 20_000),
        ("values:built:SmallString", 20_000),
        ("values:built:Cow::Owned", 20_000),
        ("values:built:Cow::Borrowed", 20_000),
        ("values:built:PackageType", 20_000),
        ("values:user-shape", 20_000),
        ("clause:qualifier-list>=2", 10_000),
        ("clause:checksum>=2-algorithms", 1_000),
        ("clause:type-needed-lowercasing", 1_000),
        ("shape:hook-cleared-name-refused", 500),
        ("shape:hook-empty-qualifier-dropped", 500),
        ("shape:hook-bad-checksum-refused", 500),
        ("shape:hook-checksum-canonicalised", 500),
        ("shape:hook-wrote-empty-namespace", 100),
        ("shape:members-exercised", 3_072),
    ]
}

/// The invariant. `builtin`: the type parameter is one of the built-in ones (type-string clause).
pub fn invariant<T>(p: &GenericPurl<T>, builtin: bool, st: Option<&mut Stats>) -> Option<Fail>
where
    T: PurlShape + Clone,
{
    if p.name().is_empty() {
        return Some(Fail::tagged("empty-name", "", "name() is empty"));
    }
    for (what, v) in [("namespace", p.namespace()), ("version", p.version()), ("subpath", p.subpath())] {
        if v == Some("") {
            return Some(Fail::tagged("empty-string-reported", what, format!("{what}() returned Some(\"\")")));
        }
    }
    for s in [Some(p.name()), p.namespace(), p.version(), p.subpath()].into_iter().flatten() {
        if std::str::from_utf8(s.as_bytes()).is_err() {
            return Some(Fail::tagged("invalid-utf8", "", format!("accessor returned invalid UTF-8: {:?}", s.as_bytes())));
        }
    }
    // qualifiers
    let q = p.qualifiers();
    let mut prev: Option<String> = None;
    let mut n = 0usize;
    for (k, v) in q.iter() {
        n += 1;
        let ks = k.as_str();
        if !key_ok(ks) {
            return Some(Fail::tagged("qualifier-key-invalid", "", format!("qualifier key {ks:?} is not a valid key")));
        }
        if ks.bytes().any(|b| b.is_ascii_uppercase()) {
            return Some(Fail::tagged("qualifier-key-not-lowercase", "", format!("qualifier key {ks:?} is not lower-case")));
        }
        if let Some(pk) = &prev {
            if pk.as_str() >= ks {
                return Some(Fail::tagged("qualifier-order", "", format!("qualifier keys not strictly ascending: {pk:?} then {ks:?}")));
            }
        }
        prev = Some(ks.to_string());
        if v.is_empty() {
            return Some(Fail::tagged("qualifier-empty-value", "", format!("qualifier {ks:?} has an empty value")));
        }
        if std::str::from_utf8(v.as_bytes()).is_err() {
            return Some(Fail::tagged("invalid-utf8", "qualifier", "qualifier value is invalid UTF-8"));
        }
        let upper = ks.to_ascii_uppercase();
        let lookups = [
            ("get(k)", q.get(ks) == Some(v)),
            ("get(K)", q.get(upper.as_str()) == Some(v)),
            ("contains_key(k)", q.contains_key(ks)),
            ("contains_key(K)", q.contains_key(upper.as_str())),
            ("[k]", guard("Index", || q[ks].as_str() == v) == Out::Ok(true)),
            ("[K]", guard("Index", || q[upper.as_str()].as_str() == v) == Out::Ok(true)),
        ];
        if let Some((how, _)) = lookups.iter().find(|(_, ok)| !ok) {
            return Some(Fail::tagged("qualifier-not-retrievable", *how, format!("qualifier {ks:?}={v:?} is listed by iter() but {how} does not return it")));
        }
    }
    if n != q.len() || q.is_empty() != (n == 0) {
        return Some(Fail::tagged("qualifier-len", "", format!("len() = {} but iter() yields {n}", q.len())));
    }
    let cs = q.get("checksum");
    if let Some(cs) = cs {
        if let Err(e) = checksum_canonical(cs) {
            return Some(Fail::tagged("checksum-not-canonical", "", format!("checksum qualifier {cs:?}: {e}")));
        }
    }
    if builtin {
        let t = p.package_type().package_type();
        if t.is_empty() || !t.bytes().all(|b| b.is_ascii_lowercase() || b.is_ascii_digit() || b == b'.' || b == b'+' || b == b'-') {
            return Some(Fail::tagged("type-not-normalised", "", format!("type string {t:?} is empty, not lower-case or has characters outside [a-z0-9.+-]")));
        }
    }
    if let Some(st) = st {
        if n >= 2 {
            st.count("clause:qualifier-list>=2");
        }
        if cs.map_or(false, |c| c.contains(',')) {
            st.count("clause:checksum>=2-algorithms");
        }
    }
    None
}

pub struct C04;

impl Visitor for C04 {
    const MONITOR: &'static str = "C04.invariant";

    fn visit<T>(&mut self, st: &mut Stats, p: &GenericPurl<T>, tp: &'static str, observe: bool) -> Option<Fail>
    where
        T: PurlShape + Clone + Eq + Hash + Ord + Debug,
        T::Error: Debug,
    {
        if observe {
            let extra = p.namespace().is_some() || p.version().is_some() || p.subpath().is_some() || !p.qualifiers().is_empty();
            if extra {
                if let Out::Ok(c) = obs::show(p) {
                    st.nontrivial(fnv(format!("{tp}\u{0}{c}").as_bytes()));
                    st.sample(|| json!({"type_parameter": tp, "value": c, "invariant": "holds"}));
                }
            }
        }
        invariant(p, true, if observe { Some(st) } else { None })
    }
}

// --- user shapes -----------------------------------------------------------------------------

/// Run one member of the shape family through the parser or the builder and judge the result.
pub fn judge_shape(cfg: &Cfg, input: &str, via_parser: bool, st: Option<&mut Stats>) -> Option<Fail> {
    shapes::set_cfg(cfg);
    let out = if via_parser {
        obs::parse::<Shape>(input)
    } else {
        // builder path: `input` is the name; the hook rewrites the rest
        obs::build(GenericPurlBuilder::new(Shape::new(cfg, "custom"), input).with_namespace("ns0").with_version("v0"))
    };
    let log = shapes::take_log();
    // the one-step constructor is a build() too
    let mut new_fail = None;
    if !via_parser {
        match obs::guard("GenericPurl::new", || purl::GenericPurl::new(Shape::new(cfg, "custom"), input)) {
            Out::Ok(Ok(p)) => {
                new_fail = invariant(&p, false, None).map(|f| Fail::tagged(f.kind, f.tag, format!("GenericPurl::new: {}", f.detail)));
            },
            Out::Panic(m) => new_fail = Some(Fail::tagged("panicked", m.clone(), format!("GenericPurl::new with user shape {cfg:?} on {input:?}: {m}"))),
            _ => {},
        }
        let _ = shapes::take_log();
    }
    if new_fail.is_some() {
        return new_fail;
    }
    match out {
        Out::Ok(p) => {
            let f = invariant(&p, false, None);
            if let Some(st) = st {
                st.count("values:user-shape");
                let h = cfg.hook;
                if h & shapes::H_EMPTY_QUAL != 0 {
                    st.count("shape:hook-empty-qualifier-dropped");
                }
                if h & shapes::H_CS_NONCANON != 0 && h & shapes::H_CS_BAD == 0 {
                    st.count("shape:hook-checksum-canonicalised");
                }
                if h & shapes::H_NS != 0 && cfg.values[0].is_empty() {
                    st.count("shape:hook-wrote-empty-namespace");
                }
                st.nontrivial(fnv(format!("shape{cfg:?}{input}").as_bytes()));
            }
            f
        },
        Out::Err(e) => {
            if let Some(st) = st {
                let hook_ran_ok = log.iter().any(|e| matches!(e, shapes::Event::Finish { ok: true, .. }));
                if hook_ran_ok && cfg.hook & shapes::H_CLEAR_NAME != 0 && e == "Parse(MissingRequiredField(Name))" {
                    st.count("shape:hook-cleared-name-refused");
                }
                if hook_ran_ok && cfg.hook & shapes::H_CS_BAD != 0 && e == "Parse(InvalidQualifier)" {
                    st.count("shape:hook-bad-checksum-refused");
                }
            }
            None
        },
        Out::Panic(m) => Some(Fail::tagged("panicked", m.clone(), format!("user shape {cfg:?} on {input:?}: {m}"))),
    }
}

pub fn run(ctx: &mut Ctx) {
    let mut v = C04;
    values::standard_workload(&mut v, ctx, "c04", 4, 2);
    // how often did a built-in type parameter have to lower-case its type?
    let mut r = ctx.rng("c04.types");
    for _ in 0..ctx.share(20_000, 500_000) {
        let mut h = crate::hist::rand_hist(&mut r, false);
        h.ty = crate::spell::gen_type(&mut r);
        if h.ty.bytes().any(|b| b.is_ascii_uppercase()) {
            ctx.st.count("clause:type-needed-lowercasing");
        }
        for tp in &values::BUILT_TPS[..4] {
            values::built_case(&mut v, ctx, tp, &h);
        }
    }
    // the user-shape family: every member x inputs
    let cfgs = shapes::all_cfgs();
    let mut r = ctx.rng("c04.shapes");
    let rounds = if ctx.quick() { 96 } else { 1000 };
    for (i, base) in cfgs.iter().enumerate() {
        if !ctx.mine(i as u64) {
            continue;
        }
        ctx.st.count("shape:members-exercised");
        for round in 0..rounds {
            let mut cfg = base.clone();
            cfg.cs_ok = r.pick(shapes::CS_OK_TEXTS).to_string();
            cfg.cs_bad = r.pick(shapes::CS_BAD_TEXTS).to_string();
            for k in 0..3 {
                cfg.values[k] = if round % 3 == 0 { r.pick(U_VALUES).to_string() } else { gen::mixed_string(&mut r, 0, 8, 50) };
            }
            let via_parser = round % 2 == 0;
            let input = if via_parser {
                let t = crate::spell::gen_tuple(&mut r, false);
                let mask = crate::spell::random_mask(&mut r);
                crate::spell::spell(&mut r, &t, mask).assemble()
            } else {
                gen::mixed_string(&mut r, 1, 8, 40)
            };
            ctx.st.evaluations += 1;
            if let Some(f) = judge_shape(&cfg, &input, via_parser, Some(&mut ctx.st)) {
                ctx.st.violation(
                    "C04.invariant",
                    f.signature("C04.invariant", &format!("shape:{}", f.kind)),
                    format!("user shape {cfg:?}, input {input:?} via {}: {}", if via_parser { "parser" } else { "builder" }, f.detail),
                    json!({"source": "shape", "cfg": cfg, "input": input, "via_parser": via_parser}),
                );
            }
        }
    }
}

pub fn replay(_monitor: &str, case: &Value) -> Result<Option<Fail>, String> {
    if str_field(case, "source")? == "shape" {
        let cfg: Cfg = serde_json::from_value(case.get("cfg").cloned().unwrap_or(Value::Null)).map_err(|e| e.to_string())?;
        let via = case.get("via_parser").and_then(|v| v.as_bool()).unwrap_or(true);
        return Ok(judge_shape(&cfg, str_field(case, "input")?, via, None));
    }
    values::replay(&mut C04, case)
}
