//! C07 — namespace and subpath structure cannot be forged or climb upwards.
//!
//! An independent scanner locates the raw namespace and subpath pieces of the input (between
//! raw '/'), decodes each with its own decoder, and every accepted string is judged: segments
//! reported = non-skipped pieces, decoded; no empty / '.' / '..' subpath segment; no empty
//! namespace segment; no '/' inside a decoded piece.

use std::fmt::Debug;
use std::str::FromStr;

use purl::{PackageType, PurlShape, SmallString};
use serde_json::{json, Value};

use super::{str_field, Fail};
use crate::gen;
use crate::obs::{self, Ctx, Out, Tier};
use crate::rng::fnv;
use crate::shrink::shrink_str;
use crate::spell;

pub const RULE: &str = "a case is one input string for one instantiation; non-trivial = accepted by the parser AND its namespace or subpath region contains an empty piece, a dot piece or an escape; distinct by hash of (instantiation, string)";

pub fn requirements(tier: Tier) -> Vec<(&'static str, u64)> {
    let q = tier == Tier::Quick;
    vec![
        ("accepted-and-judged", if q { 200_000 } else { 2_000_000 }),
        ("refused", 100_000),
        ("seen:encoded-dot-refused-or-dropped", 1_000),
        ("seen:hidden-slash-refused", 1_000),
        ("seen:raw-dot-dropped", 1_000),
        ("seen:empty-piece-dropped", 1_000),
        ("seen:backslash-kept", 100),
        ("namespace-segments-compared", 50_000),
        ("subpath-segments-compared", 50_000),
        ("deep-paths", 3_000),
    ]
}

/// Lenient percent-decoding (invalid escapes stay literal). None if the bytes are not UTF-8.
fn dec_lenient(x: &str) -> Option<String> {
    let b = x.as_bytes();
    let hv = |c: u8| -> Option<u8> {
        match c {
            b'0'..=b'9' => Some(c - b'0'),
            b'a'..=b'f' => Some(c - b'a' + 10),
            b'A'..=b'F' => Some(c - b'A' + 10),
            _ => None,
        }
    };
    let mut out = Vec::with_capacity(b.len());
    let mut i = 0;
    while i < b.len() {
        if b[i] == b'%' && i + 2 < b.len() {
            if let (Some(h), Some(l)) = (hv(b[i + 1]), hv(b[i + 2])) {
                out.push(h * 16 + l);
                i += 3;
                continue;
            }
        }
        out.push(b[i]);
        i += 1;
    }
    String::from_utf8(out).ok()
}

/// Raw namespace pieces and raw subpath pieces of `s` (split on raw '/'), or None when the
/// string has no `pkg:` prefix / no path structure to speak of.
pub fn raw_regions(s: &str) -> Option<(Vec<&str>, Option<Vec<&str>>)> {
    let r = s.strip_prefix("pkg:")?.trim_start_matches('/');
    let (r, sub) = match r.rfind('#') {
        Some(i) => (&r[..i], Some(&r[i + 1..])),
        None => (r, None),
    };
    let path = match r.rfind('?') {
        Some(i) => &r[..i],
        None => r,
    };
    let after = &path[path.find('/')? + 1..];
    let nn = match after.rfind('@') {
        Some(i) => &after[..i],
        None => after,
    };
    let ns: Vec<&str> = match nn.rfind('/') {
        Some(i) => nn[..i].split('/').collect(),
        None => vec![],
    };
    Some((ns, sub.map(|x| x.split('/').collect())))
}

#[derive(Default)]
pub struct Seen {
    pub judged: bool,
    pub interesting: bool,
    pub raw_dot_dropped: bool,
    pub empty_dropped: bool,
    pub encoded_dot_dropped: bool,
    pub backslash: bool,
    pub ns_compared: bool,
    pub sub_compared: bool,
}

pub fn judge<T>(s: &str) -> (Option<bool>, Seen, Option<Fail>)
where
    T: FromStr + PurlShape,
    <T as PurlShape>::Error: From<<T as FromStr>::Err> + Debug,
{
    let mut seen = Seen::default();
    let p = match obs::parse::<T>(s) {
        Out::Ok(p) => p,
        Out::Err(_) => return (Some(false), seen, None),
        Out::Panic(m) => return (None, seen, Some(Fail::tagged("panicked", m.clone(), format!("from_str({s:?}) panicked: {m}")))),
    };
    let ns = p.namespace().map(str::to_owned);
    let sub = p.subpath().map(str::to_owned);
    // structural clauses, independent of the scanner
    if let Some(ns) = &ns {
        if ns.split('/').any(|x| x.is_empty()) {
            return (Some(true), seen, Some(Fail::tagged("namespace-empty-segment", "", format!("{s:?} accepted with namespace {ns:?}: empty segment or leading/trailing '/'"))));
        }
    }
    if let Some(sub) = &sub {
        if let Some(bad) = sub.split('/').find(|x| x.is_empty() || *x == "." || *x == "..") {
            return (Some(true), seen, Some(Fail::tagged("subpath-bad-segment", bad.to_string(), format!("{s:?} accepted with subpath {sub:?}: it has the segment {bad:?}"))));
        }
    }
    let Some((ns_raw, sub_raw)) = raw_regions(s) else { return (Some(true), seen, None) };
    seen.judged = true;
    // namespace: exactly the non-empty raw pieces, decoded
    let mut want_ns: Vec<String> = Vec::new();
    for piece in &ns_raw {
        if piece.is_empty() {
            seen.empty_dropped = true;
            seen.interesting = true;
            continue;
        }
        let Some(d) = dec_lenient(piece) else { return (Some(true), seen, None) };
        if piece.contains('%') {
            seen.interesting = true;
        }
        if d.contains('/') {
            return (Some(true), seen, Some(Fail::tagged("hidden-slash-accepted", "namespace", format!("{s:?} accepted although the namespace piece {piece:?} decodes to {d:?}; namespace reported as {ns:?}"))));
        }
        if d.contains('\\') {
            seen.backslash = true;
        }
        want_ns.push(d);
    }
    let got_ns: Vec<String> = ns.as_deref().map(|n| n.split('/').map(str::to_owned).collect()).unwrap_or_default();
    seen.ns_compared = !want_ns.is_empty();
    if got_ns != want_ns {
        return (Some(true), seen, Some(Fail::tagged("namespace-segments-differ", "", format!("{s:?}: the pieces between raw '/' decode to {want_ns:?} but the namespace reported is {ns:?}"))));
    }
    // subpath: the raw pieces that are not "", ".", "..", decoded; decoded dots may have been dropped
    let mut want_sub: Vec<String> = Vec::new();
    if let Some(sub_raw) = &sub_raw {
        for piece in sub_raw {
            if piece.is_empty() {
                seen.empty_dropped = true;
                seen.interesting = true;
                continue;
            }
            if *piece == "." || *piece == ".." {
                seen.raw_dot_dropped = true;
                seen.interesting = true;
                continue;
            }
            let Some(d) = dec_lenient(piece) else { return (Some(true), seen, None) };
            if piece.contains('%') {
                seen.interesting = true;
            }
            if d.contains('/') {
                return (Some(true), seen, Some(Fail::tagged("hidden-slash-accepted", "subpath", format!("{s:?} accepted although the subpath piece {piece:?} decodes to {d:?}; subpath reported as {sub:?}"))));
            }
            if d == "." || d == ".." {
                // an implementation may refuse these (as today) or drop them; never report them
                seen.encoded_dot_dropped = true;
                continue;
            }
            if d.contains('\\') {
                seen.backslash = true;
            }
            want_sub.push(d);
        }
    }
    let got_sub: Vec<String> = sub.as_deref().map(|n| n.split('/').map(str::to_owned).collect()).unwrap_or_default();
    seen.sub_compared = !want_sub.is_empty();
    if got_sub != want_sub {
        return (Some(true), seen, Some(Fail::tagged("subpath-segments-differ", "", format!("{s:?}: the significant pieces between raw '/' decode to {want_sub:?} but the subpath reported is {sub:?}"))));
    }
    (Some(true), seen, None)
}

fn judge_dyn(inst: &str, s: &str) -> (Option<bool>, Seen, Option<Fail>) {
    match inst {
        "String" => judge::<String>(s),
        "SmallString" => judge::<SmallString>(s),
        _ => judge::<PackageType>(s),
    }
}

fn one(ctx: &mut Ctx, inst: &'static str, s: &str) {
    ctx.st.evaluations += 1;
    let (acc, seen, f) = judge_dyn(inst, s);
    match acc {
        Some(true) => {
            if seen.judged {
                ctx.st.count("accepted-and-judged");
            }
            if seen.interesting {
                ctx.st.nontrivial(fnv(format!("{inst}\u{0}{s}").as_bytes()));
            }
            if seen.raw_dot_dropped {
                ctx.st.count("seen:raw-dot-dropped");
            }
            if seen.empty_dropped {
                ctx.st.count("seen:empty-piece-dropped");
            }
            if seen.encoded_dot_dropped {
                ctx.st.count("seen:encoded-dot-refused-or-dropped");
            }
            if seen.backslash {
                ctx.st.count("seen:backslash-kept");
            }
            if seen.ns_compared {
                ctx.st.count("namespace-segments-compared");
            }
            if seen.sub_compared {
                ctx.st.count("subpath-segments-compared");
            }
            if seen.interesting {
                ctx.st.sample(|| json!({"instantiation": inst, "input": s, "verdict": "accepted; segments = decoded significant pieces"}));
            }
        },
        Some(false) => {
            ctx.st.count("refused");
            let up = s.to_ascii_uppercase();
            if up.contains("%2F") {
                ctx.st.count("seen:hidden-slash-refused");
            }
            if up.contains("%2E") {
                ctx.st.count("seen:encoded-dot-refused-or-dropped");
            }
        },
        None => {},
    }
    if let Some(f) = f {
        let (kind, tag) = (f.kind.clone(), f.tag.clone());
        let min = shrink_str(s, &mut |c| judge_dyn(inst, c).2.map_or(false, |g| g.kind == kind && g.tag == tag));
        let g = judge_dyn(inst, &min).2.unwrap_or(f);
        ctx.st.violation("C07.segments", g.signature("C07.segments", &min), g.detail, json!({"instantiation": inst, "input": min, "original_input": s}));
    }
}

const PIECES: [&str; 21] = [
    "", ".", "..", "%2e", "%2E", ".%2e", "%2e.", "%2E%2e", "%2F", "%2f", "a%2Fb", "%5C", "..%2F", "a", "b.c", "é", "%41",
    // literal escape text: decoding twice would turn these into dot segments / a slash / 'A'
    "%252e%252E", "%252F", "%2541", "%25",
];

pub fn run(ctx: &mut Ctx) {
    // exhaustive: every sequence of <= N pieces, as namespace and as subpath, bare and with
    // the other components present, for all three instantiations
    let maxn = if ctx.quick() { 4 } else { 5 };
    let mut idx = 0u64;
    let mut total = 0u64;
    for len in 0..=maxn {
        let count = (PIECES.len() as u64).pow(len as u32);
        for j in 0..count {
            idx += 1;
            total += 1;
            if !ctx.mine(idx) {
                continue;
            }
            let mut rem = j;
            let mut seq: Vec<&str> = Vec::with_capacity(len);
            for _ in 0..len {
                seq.push(PIECES[(rem % PIECES.len() as u64) as usize]);
                rem /= PIECES.len() as u64;
            }
            let joined = seq.join("/");
            let forms = [
                format!("pkg:t/{joined}/n"),
                format!("pkg:npm/{joined}/n@1?k=v#s"),
                format!("pkg:t/n#{joined}"),
                format!("pkg:maven/g/n@1?k=v#{joined}"),
            ];
            for (i, s) in forms.iter().enumerate() {
                one(ctx, "String", s);
                if i % 2 == 1 {
                    one(ctx, "Purl", s);
                } else {
                    one(ctx, "SmallString", s);
                }
            }
        }
    }
    if ctx.worker == 0 {
        ctx.st.exhaustive.push(json!({"name": format!("every sequence of <= {maxn} pieces from {PIECES:?} joined by '/', as namespace and as subpath, bare and with other components; String + SmallString/Purl"), "size": total * 4, "completed": true}));
    }
    // deep paths: 1..=140 pieces followed by a tail with empty / dot pieces (a depth cap or a
    // chunked scan would show only beyond some number of pieces)
    let tails = ["x", "x/../../y", "x//y", "./x", "../x", "x/.", "x/%2e%2e/y", "x/%2F/y", ""];
    let mut idx = 0u64;
    for depth in 1..=140usize {
        for (ti, tail) in tails.iter().enumerate() {
            idx += 1;
            if !ctx.mine(idx) {
                continue;
            }
            let body = match ti % 3 {
                0 => "d/".repeat(depth),
                1 => (0..depth).map(|i| format!("s{i}/")).collect::<String>(),
                _ => "d/./".repeat(depth),
            };
            for s in [format!("pkg:t/{body}{tail}/n"), format!("pkg:t/n#{body}{tail}"), format!("pkg:npm/{body}{tail}/n@1?k=v#{body}{tail}")] {
                ctx.st.count("deep-paths");
                one(ctx, "String", &s);
                one(ctx, "Purl", &s);
            }
        }
    }
    // random: legal spellings, mutated corpus, the token language in the subpath / namespace contexts
    let mut r = ctx.rng("c07.g2");
    for _ in 0..ctx.share(100_000, 3_000_000) {
        let known = r.chance(1, 3);
        let t = spell::gen_tuple(&mut r, known);
        let mask = spell::random_mask(&mut r);
        let s = spell::spell(&mut r, &t, mask).assemble();
        one(ctx, "String", &s);
        one(ctx, if known { "Purl" } else { "SmallString" }, &s);
    }
    let (corpus, _) = gen::load_corpus();
    let mut r = ctx.rng("c07.g10");
    for _ in 0..ctx.share(200_000, 6_000_000) {
        let s = gen::mutate(&mut r, &corpus);
        one(ctx, "String", &s);
        one(ctx, "Purl", &s);
    }
    let (w, n, quick) = (ctx.worker, ctx.nworkers, ctx.quick());
    let mut f = |_i: u64, s: &str| one(ctx, "String", s);
    let ctxs = ["pkg:t/", "pkg:t/n#", "pkg:t/x/", "pkg:t/n#x/"];
    let a = gen::for_each_lang(&ctxs, gen::SIGMA_FULL, if quick { 3 } else { 4 }, w, n, 0, &mut f);
    let b = gen::for_each_lang(&ctxs, gen::SIGMA_STRUCT, if quick { 5 } else { 6 }, w, n, a, &mut f);
    if ctx.worker == 0 {
        ctx.st.exhaustive.push(json!({"name": "token language in 4 namespace/subpath contexts (String)", "size": a + b, "completed": true}));
    }
}

pub fn replay(_monitor: &str, case: &Value) -> Result<Option<Fail>, String> {
    Ok(judge_dyn(str_field(case, "instantiation")?, str_field(case, "input")?).2)
}
