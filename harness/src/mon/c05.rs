//! C05 — invalid input is refused, with the matching error, however it is spelled.
//!
//! Never-accepted clause: whatever the strict recogniser R1 classifies as MustReject must be
//! refused by every instantiation. Error clause: a legal spelling damaged by exactly one fault
//! (G3) must be answered with the error variant the statement assigns to that fault. The
//! injector is cross-checked against R1 (it must see exactly that one defect class).

use std::fmt::Debug;
use std::str::FromStr;

use purl::{PackageType, PurlShape, SmallString};
use serde_json::{json, Value};

use super::{str_field, Fail};
use crate::gen;
use crate::model::{analyse, classify, known_type, type_chars_ok, Class};
use crate::obs::{self, Ctx, Out, Tier};
use crate::rng::fnv;
use crate::shrink::shrink_str;
use crate::spell::{self, expected_error, FAULT_KINDS};

pub const RULE: &str = "a case is one invalid string for one instantiation (recogniser says MustReject, or a legal spelling with exactly one injected fault); non-trivial = every one of them (each carries a defect the parser must find); distinct by hash of (instantiation, string)";

fn leak(s: String) -> &'static str {
    Box::leak(s.into_boxed_str())
}

pub fn requirements(tier: Tier) -> Vec<(&'static str, u64)> {
    let mut v = vec![
        ("must-reject-confirmed:String", if tier == Tier::Quick { 1_000_000 } else { 10_000_000 }),
        ("must-reject-confirmed:Purl", 1_000_000),
        ("typed:unknown-type", 25),
        ("typed:maven-no-namespace", 50),
        ("exhaustive:scalar-x-restricted-slot", 1_112_064 * 22),
    ];
    for k in FAULT_KINDS {
        for inst in ["String", "SmallString", "Purl"] {
            v.push((leak(format!("fault:{k}:{inst}")), 50));
        }
    }
    v
}

/// R1 class that a G3 fault kind must show up as.
fn class_of(kind: &str) -> &'static str {
    match kind {
        k if k.starts_with("scheme") => "scheme",
        "no-type" => "no-type",
        "type-invalid-char" | "type-percent-encoded" => "type-invalid",
        "no-name-no-slash" | "no-name-empty" => "no-name",
        "qual-no-eq" => "qualifier-no-eq",
        "qual-key-empty" | "qual-key-invalid" | "qual-key-encoded" => "key",
        "qual-dup-key" => "dup-key",
        k if k.starts_with("utf8-") => "utf8",
        k if k.starts_with("slash-") => "hidden-slash",
        k if k.starts_with("checksum-") => "checksum",
        _ => "?",
    }
}

fn error_for_class(class: &str) -> &'static str {
    match class {
        "scheme" => "UnsupportedUrlScheme",
        "no-type" => "MissingRequiredField(PackageType)",
        "type-invalid" => "InvalidPackageType",
        "no-name" => "MissingRequiredField(Name)",
        "qualifier-no-eq" | "key" | "dup-key" | "checksum" => "InvalidQualifier",
        "utf8" | "hidden-slash" => "InvalidEscape",
        _ => "?",
    }
}

/// String-only oracle. `single`: also judge the error variant when R1 sees exactly one class.
pub fn judge<T>(s: &str, typed: bool, vouched: bool) -> (Option<Vec<&'static str>>, Option<Fail>)
where
    T: FromStr + PurlShape,
    <T as PurlShape>::Error: From<<T as FromStr>::Err> + Debug,
{
    let an = analyse(s);
    if an.rejects.is_empty() {
        return (None, None);
    }
    let classes = an.rejects.clone();
    // The error clause needs "that defect is the only one": one defect class, nothing the
    // statements leave open elsewhere in the string, and - for the typed PURL - no type-level
    // refusal (unknown type, maven without namespace) competing with it.
    // (A missing scheme is judged for its error only on injector-made strings: without the
    // prefix the rest of an arbitrary string cannot be said to be otherwise valid.)
    let mut single = classes.len() == 1 && !an.unspec && (classes[0] != "scheme" || vouched);
    if single && typed && !matches!(classes[0], "scheme" | "no-type" | "type-invalid") {
        let ty = &an.comps.ty;
        single = type_chars_ok(ty) && known_type(ty) && (ty != "maven" || !an.comps.ns.is_empty());
    }
    let got = obs::parse::<T>(s);
    let f = match &got {
        Out::Ok(_) => Some(Fail::tagged("invalid-accepted", classes.join("+"), format!("{s:?} has defect(s) {classes:?} but was accepted"))),
        Out::Panic(m) => Some(Fail::tagged("panicked", m.clone(), format!("from_str({s:?}) panicked: {m}"))),
        Out::Err(e) => {
            if single {
                let want = error_for_class(classes[0]);
                let want = if typed { format!("Parse({want})") } else { want.to_string() };
                if *e != want {
                    Some(Fail::tagged("wrong-error", format!("{}:{e}", classes[0]), format!("{s:?} has the single defect {:?}; expected Err({want}), got Err({e})", classes[0])))
                } else {
                    None
                }
            } else {
                None
            }
        },
    };
    (Some(classes), f)
}

fn judge_dyn(inst: &str, s: &str, vouched: bool) -> (Option<Vec<&'static str>>, Option<Fail>) {
    match inst {
        "String" => judge::<String>(s, false, vouched),
        "SmallString" => judge::<SmallString>(s, false, vouched),
        "Purl" => judge::<PackageType>(s, true, vouched),
        _ => (None, None),
    }
}

fn one(ctx: &mut Ctx, inst: &'static str, key: &'static str, s: &str, vouched: bool) -> Option<Vec<&'static str>> {
    let (classes, f) = judge_dyn(inst, s, vouched);
    if classes.is_some() {
        ctx.st.evaluations += 1;
        ctx.st.count(key);
        ctx.st.nontrivial(fnv(format!("{inst}\u{0}{s}").as_bytes()));
    }
    if let Some(f) = f {
        let (kind, tag) = (f.kind.clone(), f.tag.clone());
        let min = shrink_str(s, &mut |c| judge_dyn(inst, c, vouched).1.map_or(false, |g| g.kind == kind && g.tag == tag));
        let g = judge_dyn(inst, &min, vouched).1.unwrap_or(f);
        ctx.st.violation("C05.reject", g.signature("C05.reject", &min), g.detail, json!({"kind": "string", "instantiation": inst, "input": min, "original_input": s, "vouched_single_fault": vouched}));
    }
    classes
}

fn all_insts(ctx: &mut Ctx, s: &str) -> Option<Vec<&'static str>> {
    let c = one(ctx, "String", "must-reject-confirmed:String", s, false);
    one(ctx, "SmallString", "must-reject-confirmed:SmallString", s, false);
    one(ctx, "Purl", "must-reject-confirmed:Purl", s, false);
    c
}

/// Typed extras: unknown type / maven without namespace. Returns a failure if the typed PURL
/// does not answer with `want` while the type-agnostic PURL accepts.
pub fn judge_typed_extra(s: &str, want: &str) -> Option<Fail> {
    match obs::parse::<String>(s) {
        Out::Ok(_) => {},
        o => return Some(Fail::tagged("harness", "generic-refused", format!("harness error: {s:?} should be accepted by the type-agnostic PURL, got {}", o.kind()))),
    }
    match obs::parse::<PackageType>(s) {
        Out::Err(e) if e == want => None,
        o => Some(Fail::tagged("typed-wrong-answer", format!("{want}:{}", o.kind()), format!("{s:?}: typed PURL must answer Err({want}), got {}", o.kind()))),
    }
}

pub fn run(ctx: &mut Ctx) {
    // never-accepted clause on the complete token language
    let (w, n, quick) = (ctx.worker, ctx.nworkers, ctx.quick());
    let mut f = |_i: u64, s: &str| {
        all_insts(ctx, s);
    };
    let (total, name) = gen::for_each_g1(quick, w, n, &mut f);
    if ctx.worker == 0 {
        ctx.st.exhaustive.push(json!({"name": format!("{name}; every string the recogniser classifies MustReject must be refused (and with the assigned error when it has a single defect class)"), "size": total, "completed": true, "instantiations": 3}));
    }
    // every Unicode scalar, raw and percent-encoded, in every syntactic slot whose alphabet is
    // restricted (scheme, type, key, checksum algorithm and digest, the two digits of an escape)
    let n = gen::for_each_slot_string(ctx.worker, ctx.nworkers, &mut |s: &str| {
        all_insts(ctx, s);
    });
    ctx.st.add("exhaustive:scalar-x-restricted-slot", n);
    if ctx.worker == 0 {
        ctx.st.exhaustive.push(json!({"name": "every Unicode scalar, raw and percent-encoded, in 11 slots with a restricted alphabet (scheme, type, key, checksum algorithm / digest, escape digits)", "size": 1_112_064u64 * 22, "completed": true, "instantiations": 3}));
    }
    // error clause: single faults injected into legal spellings
    let mut r = ctx.rng("c05.g3");
    for _ in 0..ctx.share(200_000, 5_000_000) {
        let known = r.coin();
        let t = spell::gen_tuple(&mut r, known);
        let mask = spell::random_mask(&mut r);
        let sp = spell::spell(&mut r, &t, mask);
        // a few fault kinds per spelling
        for _ in 0..3 {
            let kind = *r.pick(FAULT_KINDS);
            let Some(s) = spell::inject(&mut r, &t, &sp, kind) else { continue };
            // the injector must have produced exactly this one defect, according to R1
            match classify(&s) {
                Class::MustReject(c) if c == vec![class_of(kind)] => {},
                other => {
                    ctx.st.count("harness-error:injector-disagrees-with-recogniser");
                    ctx.st.set_insert("harness-errors", json!({"harness_error": "G3 vs R1", "fault": kind, "string": s, "recogniser": format!("{other:?}")}).to_string());
                    continue;
                },
            }
            debug_assert_eq!(expected_error(kind), error_for_class(class_of(kind)));
            ctx.st.sample(|| json!({"fault": kind, "string": s, "expected_error": expected_error(kind)}));
            one(ctx, "String", "must-reject-confirmed:String", &s, true);
            ctx.st.count_dyn(format!("fault:{kind}:String"));
            one(ctx, "SmallString", "must-reject-confirmed:SmallString", &s, true);
            ctx.st.count_dyn(format!("fault:{kind}:SmallString"));
            if known {
                one(ctx, "Purl", "must-reject-confirmed:Purl", &s, true);
                ctx.st.count_dyn(format!("fault:{kind}:Purl"));
            }
        }
        // typed extras
        if known && crate::model::ascii_lower(&t.ty) == "maven" {
            let mut sp2 = sp.clone();
            sp2.ns = match r.below(3) {
                0 => vec![],
                1 => vec![String::new()],
                _ => vec![String::new(), String::new()],
            };
            // raw '@'/'?'/'#' inside the old namespace are gone with it; the rest is untouched
            let s = sp2.assemble();
            ctx.st.evaluations += 1;
            ctx.st.count("typed:maven-no-namespace");
            if let Some(f) = judge_typed_extra(&s, "MissingRequiredField(Namespace)") {
                ctx.st.violation("C05.typed", f.signature("C05.typed", &s), f.detail, json!({"kind": "typed", "input": s, "want": "MissingRequiredField(Namespace)"}));
            }
        }
    }
    // typed: every other type name of the spec, and random well-formed unknown types
    let mut r = ctx.rng("c05.types");
    let others = crate::mon::c15::SPEC_OTHER_TYPES;
    for i in 0..ctx.share(2_000, 50_000) {
        let ty = if (i as usize) < others.len() && ctx.worker == 0 { others[i as usize].to_string() } else { spell::gen_type(&mut r) };
        if crate::model::known_type(&crate::model::ascii_lower(&ty)) {
            continue;
        }
        let mut t = spell::gen_tuple(&mut r, false);
        t.ty = ty;
        let s = spell::spell(&mut r, &t, 0).assemble();
        ctx.st.evaluations += 1;
        ctx.st.count("typed:unknown-type");
        if let Some(f) = judge_typed_extra(&s, "UnsupportedType") {
            ctx.st.violation("C05.typed", f.signature("C05.typed", &s), f.detail, json!({"kind": "typed", "input": s, "want": "UnsupportedType"}));
        }
    }
    // mutated corpus for the never-accepted clause
    let (corpus, _) = gen::load_corpus();
    let mut r = ctx.rng("c05.g10");
    for _ in 0..ctx.share(300_000, 8_000_000) {
        let s = gen::mutate(&mut r, &corpus);
        all_insts(ctx, &s);
    }
}

pub fn replay(_monitor: &str, case: &Value) -> Result<Option<Fail>, String> {
    match str_field(case, "kind")? {
        "string" => Ok(judge_dyn(str_field(case, "instantiation")?, str_field(case, "input")?, case.get("vouched_single_fault").and_then(|v| v.as_bool()).unwrap_or(false)).1),
        "typed" => Ok(judge_typed_extra(str_field(case, "input")?, str_field(case, "want")?)),
        o => Err(format!("unknown case kind {o}")),
    }
}
