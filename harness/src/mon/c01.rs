//! C01 — parse → format → parse is a fixpoint.
//!
//! Refuted by: `T::from_str(s) = Ok(p)`, `c = p.to_string()`, and any of: `T::from_str(c)` is
//! `Err` or panics; `q != p`; `q.to_string() != c`. Metamorphic oracle; no model involved.

use std::fmt::Debug;
use std::str::FromStr;

use purl::{PackageType, PurlShape, SmallString};
use serde_json::{json, Value};

use super::{str_field, Fail};
use crate::gen;
use crate::obs::{self, guard, Ctx, Out, Snap, Stats, Tier};
use crate::rng::fnv;
use crate::shrink::{shrink_str, sig_of};
use crate::spell;

pub const RULE: &str = "a case is an input string for one instantiation; non-trivial = accepted by the parser AND (canonical string differs from the input OR it contains a %XX escape); distinct by hash of (instantiation, canonical string)";

pub fn requirements(tier: Tier) -> Vec<(&'static str, u64)> {
    let n = if tier == Tier::Quick { 10_000 } else { 100_000 };
    vec![
        ("accepted:String", n),
        ("accepted:SmallString", n),
        ("accepted:Purl", n),
        ("feature:namespace", 1),
        ("feature:version", 1),
        ("feature:qualifiers>=2", 1),
        ("feature:checksum>=2", 1),
        ("feature:subpath", 1),
        ("feature:escaped-separator-in-namespace", 1),
        ("feature:escaped-separator-in-name", 1),
        ("feature:escaped-separator-in-version", 1),
        ("feature:escaped-separator-in-qualifier", 1),
        ("feature:escaped-separator-in-subpath", 1),
        ("feature:raw-non-ascii-input", 1),
        ("feature:amp-in-qualifier-value", 1),
        ("feature:eq-in-qualifier-value", 1),
        ("feature:literal-percent-text", 1),
        ("workload:large-inputs", 25),
    ]
}

/// The relation itself. Returns (snapshot if accepted, canonical string, failure).
pub fn judge<T>(s: &str) -> (Option<(Snap, String)>, Option<Fail>)
where
    T: FromStr + PurlShape + PartialEq + Clone,
    <T as PurlShape>::Error: From<<T as FromStr>::Err> + Debug,
{
    let p = match obs::parse::<T>(s) {
        Out::Ok(p) => p,
        Out::Err(_) => return (None, None),
        Out::Panic(m) => return (None, Some(Fail::new("parse-panicked", format!("from_str({s:?}) panicked: {m}")))),
    };
    let snap = Snap::of(&p);
    let c = match obs::show(&p) {
        Out::Ok(c) => c,
        o => return (None, Some(Fail::new("format-panicked", format!("to_string() of the PURL parsed from {s:?}: {}", o.kind())))),
    };
    let q = match obs::parse::<T>(&c) {
        Out::Ok(q) => q,
        o => {
            return (
                Some((snap, c.clone())),
                Some(Fail::new("reparse-rejected", format!("{s:?} is accepted and prints as {c:?}, which the parser answers with {}", o.kind()))),
            )
        },
    };
    match guard("PartialEq", || q == p) {
        Out::Ok(true) => {},
        Out::Ok(false) => {
            let qs = Snap::of(&q);
            return (
                Some((snap.clone(), c.clone())),
                Some(Fail::new(
                    "reparse-differs",
                    format!("{s:?} prints as {c:?}, which parses to a different PURL (first difference: {:?}): {:?} vs {:?}", snap.diff(&qs), snap, qs),
                )),
            );
        },
        o => return (Some((snap, c)), Some(Fail::new("eq-panicked", o.kind()))),
    }
    match obs::show(&q) {
        Out::Ok(c2) if c2 == c => {},
        Out::Ok(c2) => {
            return (
                Some((snap, c.clone())),
                Some(Fail::new("reformat-differs", format!("{s:?} prints as {c:?}, whose parse prints as {c2:?}"))),
            )
        },
        o => return (Some((snap, c)), Some(Fail::new("format-panicked", o.kind()))),
    }
    (Some((snap, c)), None)
}

fn has_escaped_sep(raw: &str) -> bool {
    // an escape of one of the separator characters / @ ? # & = % +
    let up = raw.to_ascii_uppercase();
    ["%2F", "%40", "%3F", "%23", "%26", "%3D", "%25", "%2B"].iter().any(|e| up.contains(e))
}

fn features(st: &mut Stats, s: &str, snap: &Snap, canon: &str) {
    if snap.ns.is_some() {
        st.count("feature:namespace");
    }
    if snap.ver.is_some() {
        st.count("feature:version");
    }
    if snap.quals.len() >= 2 {
        st.count("feature:qualifiers>=2");
    }
    if let Some((_, v)) = snap.quals.iter().find(|(k, _)| k == "checksum") {
        if v.contains(',') {
            st.count("feature:checksum>=2");
        }
    }
    if snap.sub.is_some() {
        st.count("feature:subpath");
    }
    if !s.is_ascii() {
        st.count("feature:raw-non-ascii-input");
    }
    for (_, v) in &snap.quals {
        if v.contains('&') {
            st.count("feature:amp-in-qualifier-value");
        }
        if v.contains('=') {
            st.count("feature:eq-in-qualifier-value");
        }
    }
    // where do escaped separators sit in the canonical string?
    let (left, sub) = match canon.rfind('#') {
        Some(i) => (&canon[..i], Some(&canon[i + 1..])),
        None => (canon, None),
    };
    let (path, q) = match left.rfind('?') {
        Some(i) => (&left[..i], Some(&left[i + 1..])),
        None => (left, None),
    };
    let (nn, ver) = match path.rfind('@') {
        Some(i) => (&path[..i], Some(&path[i + 1..])),
        None => (path, None),
    };
    let (ns, name) = match nn.rfind('/') {
        Some(i) => (&nn[..i], &nn[i + 1..]),
        None => ("", nn),
    };
    if has_escaped_sep(ns) {
        st.count("feature:escaped-separator-in-namespace");
    }
    if has_escaped_sep(name) {
        st.count("feature:escaped-separator-in-name");
    }
    if ver.map_or(false, has_escaped_sep) {
        st.count("feature:escaped-separator-in-version");
    }
    if q.map_or(false, has_escaped_sep) {
        st.count("feature:escaped-separator-in-qualifier");
    }
    if sub.map_or(false, has_escaped_sep) {
        st.count("feature:escaped-separator-in-subpath");
    }
    let all = [Some(&snap.name), snap.ns.as_ref(), snap.ver.as_ref(), snap.sub.as_ref()];
    if all.iter().flatten().any(|x| x.contains('%')) || snap.quals.iter().any(|(_, v)| v.contains('%')) {
        st.count("feature:literal-percent-text");
    }
}

fn one<T>(ctx: &mut Ctx, inst: &'static str, acc_key: &'static str, rej_key: &'static str, s: &str, with_features: bool)
where
    T: FromStr + PurlShape + PartialEq + Clone,
    <T as PurlShape>::Error: From<<T as FromStr>::Err> + Debug,
{
    ctx.st.evaluations += 1;
    let (acc, fail) = judge::<T>(s);
    match &acc {
        Some((snap, c)) => {
            ctx.st.count(acc_key);
            if c != s || c.contains('%') {
                ctx.st.nontrivial(fnv(format!("{inst}\u{0}{c}").as_bytes()));
            }
            if with_features {
                features(&mut ctx.st, s, snap, c);
            }
            ctx.st.sample(|| json!({"instantiation": inst, "input": s, "canonical": c, "reparse": "equal, prints identically"}));
        },
        None => ctx.st.count(rej_key),
    }
    if let Some(f) = fail {
        // shrink against the same oracle, same failure kind
        let kind = f.kind.clone();
        let min = shrink_str(s, &mut |cand| judge::<T>(cand).1.map_or(false, |g| g.kind == kind));
        let detail = judge::<T>(&min).1.map(|g| g.detail).unwrap_or(f.detail);
        ctx.st.violation(
            "C01.roundtrip",
            format!("C01.roundtrip:{kind}:{}", sig_of(&min)),
            detail,
            json!({"instantiation": inst, "input": min, "original_input": s}),
        );
    }
}

pub fn check_all(ctx: &mut Ctx, s: &str) {
    one::<String>(ctx, "String", "accepted:String", "rejected:String", s, true);
    one::<SmallString>(ctx, "SmallString", "accepted:SmallString", "rejected:SmallString", s, false);
    one::<PackageType>(ctx, "Purl", "accepted:Purl", "rejected:Purl", s, false);
}

pub fn run(ctx: &mut Ctx) {
    // G1 — complete at the tier's bound
    let (w, n) = (ctx.worker, ctx.nworkers);
    let quick = ctx.quick();
    let mut f = |_i: u64, s: &str| check_all(ctx, s);
    let (total, name) = gen::for_each_g1(quick, w, n, &mut f);
    ctx.st.exhaustive.push(json!({"name": name, "size": total, "completed": true, "instantiations": 3}));

    // G2 — legal spellings (all accepted by construction; typed tuples for the enum)
    let mut r = ctx.rng("c01.g2");
    for _ in 0..ctx.share(150_000, 4_000_000) {
        let known = r.chance(1, 3);
        let t = spell::gen_tuple(&mut r, known);
        let mask = spell::random_mask(&mut r);
        let s = spell::spell(&mut r, &t, mask).assemble();
        ctx.st.count("workload:g2-spellings");
        check_all(ctx, &s);
    }
    // G10 — mutated conformance corpus
    let (corpus, _src) = gen::load_corpus();
    let mut r = ctx.rng("c01.g10");
    for _ in 0..ctx.share(300_000, 8_000_000) {
        let s = gen::mutate(&mut r, &corpus);
        ctx.st.count("workload:g10-mutants");
        check_all(ctx, &s);
    }
    large(ctx);
    // escape soup
    let mut r = ctx.rng("c01.soup");
    for _ in 0..ctx.share(300_000, 8_000_000) {
        let s = gen::escape_soup(&mut r);
        ctx.st.count("workload:escape-soup");
        check_all(ctx, &s);
    }
}

/// Large inputs (G11): the round trip also holds for long components and many segments /
/// qualifiers. Quick: the 64 KiB catalogue; thorough: 64 KiB, 256 KiB, 1 MiB.
fn large(ctx: &mut Ctx) {
    let sizes: &[usize] = if ctx.quick() { &[64 << 10] } else { &[64 << 10, 256 << 10, 1 << 20] };
    let mut i = 0u64;
    for size in sizes {
        for (_name, s) in gen::large_inputs(*size) {
            i += 1;
            if !ctx.mine(i) {
                continue;
            }
            ctx.st.count("workload:large-inputs");
            ctx.st.max("max:input-bytes", s.len() as u64);
            // failures on huge strings are reported unshrunk (the oracle is the same)
            for (inst, f) in [("String", judge::<String>(&s).1), ("SmallString", judge::<SmallString>(&s).1), ("Purl", judge::<PackageType>(&s).1)] {
                ctx.st.evaluations += 1;
                if let Some(f) = f {
                    let head: String = s.chars().take(80).collect();
                    ctx.st.violation(
                        "C01.roundtrip",
                        format!("C01.roundtrip:{}:large:{}", f.kind, crate::shrink::sig_of(&head)),
                        f.detail.chars().take(600).collect(),
                        json!({"instantiation": inst, "input": s}),
                    );
                }
            }
        }
    }
}

pub fn replay(_monitor: &str, case: &Value) -> Result<Option<Fail>, String> {
    let s = str_field(case, "input")?;
    Ok(match str_field(case, "instantiation")? {
        "String" => judge::<String>(s).1,
        "SmallString" => judge::<SmallString>(s).1,
        "Purl" => judge::<PackageType>(s).1,
        o => return Err(format!("unknown instantiation {o}")),
    })
}
