//! C18 — combined names split and join at the ecosystem separator.
//!
//! Oracle: a three-line split model, and the inverse relation
//! `builder_with_combined_name(ty, p.combined_name())` for typed PURLs meeting the side
//! condition of the statement.

use purl::{PackageType, Purl};
use serde_json::{json, Value};

use super::{str_field, Fail};
use crate::exec::{mk_typed, ALL_TYPES};
use crate::gen;
use crate::mon::c15::r8;
use crate::obs::{self, guard, Ctx, Out, Tier};
use crate::rng::fnv;
use crate::shrink::shrink_str;
use crate::spell;

pub const RULE: &str = "a case is (package type, combined-name string) for the split, or one typed PURL for the inverse; non-trivial = the string contains the type's separator (split) resp. the PURL has a namespace (inverse); distinct by hash of (type, string)";

pub fn requirements(tier: Tier) -> Vec<(&'static str, u64)> {
    let q = tier == Tier::Quick;
    vec![
        ("split-checked", if q { 500_000 } else { 10_000_000 }),
        ("exhaustive:short-strings-x-type", 7 * (0..=6u32).map(|l| 5u64.pow(l)).sum::<u64>()),
        ("split:separator-present", 100_000),
        ("split:nothing-before-separator", 5_000),
        ("split:several-separators", 50_000),
        ("inverse-checked", 20_000),
        ("inverse-skipped-by-side-condition", 100),
        ("inverse:with-namespace", 10_000),
        ("exhaustive:scalar-in-name-x-type", 1_112_064 * 21),
    ]
}

/// Split model: (namespace or "", name).
pub fn model_split(ty: &str, s: &str) -> (String, String) {
    match ty {
        "golang" | "npm" => match s.rfind('/') {
            Some(i) => (s[..i].to_string(), s[i + 1..].to_string()),
            None => (String::new(), s.to_string()),
        },
        "maven" => match s.find(':') {
            Some(i) => (s[..i].to_string(), s[i + 1..].to_string()),
            None => (String::new(), s.to_string()),
        },
        _ => (String::new(), s.to_string()),
    }
}

pub fn judge_split(ty: &str, s: &str) -> Option<Fail> {
    let t = mk_typed(ty)?;
    let b = match guard("Purl::builder_with_combined_name", || Purl::builder_with_combined_name(t, s)) {
        Out::Ok(b) => b,
        o => return Some(Fail::tagged("panicked", ty, format!("builder_with_combined_name({ty}, {s:?}): {}", o.kind()))),
    };
    let (ns, name) = model_split(ty, s);
    if b.parts.namespace.as_str() != ns || b.parts.name.as_str() != name {
        return Some(Fail::tagged(
            "split-differs",
            ty,
            format!("builder_with_combined_name({ty}, {s:?}) put namespace {:?} / name {:?}; the rule gives namespace {ns:?} / name {name:?}", b.parts.namespace.as_str(), b.parts.name.as_str()),
        ));
    }
    if b.package_type != t || !b.parts.version.is_empty() || !b.parts.subpath.is_empty() || !b.parts.qualifiers.is_empty() {
        return Some(Fail::tagged("other-field-touched", ty, format!("builder_with_combined_name({ty}, {s:?}) set something besides namespace and name")));
    }
    // ... and that is what the PURL built from it reports: the namespace as split, the name
    // as split and then subject to the type's own name rule (C08), nothing else
    if let Out::Ok(p) = obs::build(b) {
        let want_name = crate::model::typed_name(ty, &name);
        if p.namespace().unwrap_or("") != ns || p.name() != want_name {
            return Some(Fail::tagged(
                "built-differs-from-split",
                ty,
                format!("builder_with_combined_name({ty}, {s:?}).build() reports namespace {:?} / name {:?}; the split gives namespace {ns:?} / name {want_name:?}", p.namespace(), p.name()),
            ));
        }
    }
    None
}

/// Inverse relation on a typed PURL. Ok(true) = checked, Ok(false) = side condition not met.
pub fn judge_inverse(p: &Purl) -> Result<bool, Fail> {
    let t = *p.package_type();
    let ty = r8(t);
    let applies = match ty {
        "golang" | "npm" => !p.name().contains('/'),
        "maven" => !p.namespace().unwrap_or("").contains(':'),
        _ => p.namespace().is_none(),
    };
    if !applies {
        return Ok(false);
    }
    let c = match guard("combined_name", || p.combined_name().into_owned()) {
        Out::Ok(c) => c,
        o => return Err(Fail::tagged("panicked", ty, format!("combined_name(): {}", o.kind()))),
    };
    let b = Purl::builder_with_combined_name(t, c.as_str());
    match obs::build(b) {
        Out::Ok(q) => {
            // "the same namespace and name": as the accessors report them, and as stored
            let stored = |x: &Purl| {
                let parts = x.clone().into_builder().parts;
                (parts.namespace.to_string(), parts.name.to_string())
            };
            if stored(&q) != stored(p) {
                return Err(Fail::tagged(
                    "inverse-differs-in-stored-parts",
                    ty,
                    format!("{ty} PURL with stored namespace / name {:?}: combined_name() = {c:?}, which splits back into {:?}", stored(p), stored(&q)),
                ));
            }
            if q.namespace() != p.namespace() || q.name() != p.name() {
                return Err(Fail::tagged(
                    "inverse-differs",
                    ty,
                    format!("{ty} PURL with namespace {:?} / name {:?}: combined_name() = {c:?}, which splits back into namespace {:?} / name {:?}", p.namespace(), p.name(), q.namespace(), q.name()),
                ));
            }
            Ok(true)
        },
        o => Err(Fail::tagged("inverse-build-failed", ty, format!("{ty} PURL namespace {:?} / name {:?}: combined_name() = {c:?} does not build: {}", p.namespace(), p.name(), o.kind()))),
    }
}

fn judge_inverse_str(s: &str) -> Option<Result<bool, Fail>> {
    obs::parse::<PackageType>(s).ok().map(|p| judge_inverse(&p))
}

fn split_case(ctx: &mut Ctx, ty: &'static str, s: &str, counter: &'static str) {
    ctx.st.evaluations += 1;
    ctx.st.count("split-checked");
    ctx.st.count(counter);
    let sep = match ty {
        "golang" | "npm" => Some('/'),
        "maven" => Some(':'),
        _ => None,
    };
    if let Some(sep) = sep {
        let n = s.matches(sep).count();
        if n >= 1 {
            ctx.st.count("split:separator-present");
            ctx.st.nontrivial(fnv(format!("{ty}\u{0}{s}").as_bytes()));
            if model_split(ty, s).0.is_empty() {
                ctx.st.count("split:nothing-before-separator");
            }
        }
        if n >= 2 {
            ctx.st.count("split:several-separators");
        }
    }
    if let Some(f) = judge_split(ty, s) {
        let kind = f.kind.clone();
        let min = shrink_str(s, &mut |c| judge_split(ty, c).map_or(false, |g| g.kind == kind));
        let g = judge_split(ty, &min).unwrap_or(f);
        ctx.st.violation("C18.combined", format!("C18.combined:{}:{}", g.kind, g.tag), g.detail, json!({"kind": "split", "type": ty, "input": min}));
    }
    // the inverse on the PURL this builder gives, if it builds
    if let Some(t) = mk_typed(ty) {
        if let Out::Ok(p) = obs::build(Purl::builder_with_combined_name(t, s)) {
            inverse_case(ctx, &p, json!({"kind": "inverse-of-combined", "type": ty, "input": s}));
        }
    }
}

fn inverse_case(ctx: &mut Ctx, p: &Purl, case: Value) {
    ctx.st.evaluations += 1;
    match judge_inverse(p) {
        Ok(true) => {
            ctx.st.count("inverse-checked");
            if p.namespace().is_some() {
                ctx.st.count("inverse:with-namespace");
                ctx.st.sample(|| json!({"purl": p.to_string(), "combined_name": p.combined_name(), "splits_back_to": [p.namespace(), p.name()]}));
            }
        },
        Ok(false) => ctx.st.count("inverse-skipped-by-side-condition"),
        Err(f) => ctx.st.violation("C18.combined", format!("C18.combined:{}:{}", f.kind, f.tag), f.detail, case),
    }
}

const SHORT: [char; 5] = ['a', '/', ':', '.', '@'];

pub fn run(ctx: &mut Ctx) {
    let types: Vec<&'static str> = ALL_TYPES.iter().map(|t| r8(*t)).collect();
    // complete: every string of length <= 6 over {a, /, :, ., @} x 7 types
    let mut idx = 0u64;
    for len in 0..=6usize {
        let total = 5u64.pow(len as u32);
        for j in 0..total {
            idx += 1;
            if !ctx.mine(idx) {
                continue;
            }
            let mut s = String::new();
            let mut rem = j;
            for _ in 0..len {
                s.push(SHORT[(rem % 5) as usize]);
                rem /= 5;
            }
            for ty in &types {
                split_case(ctx, ty, &s, "exhaustive:short-strings-x-type");
            }
        }
    }
    if ctx.worker == 0 {
        ctx.st.exhaustive.push(json!({"name": "every string of length <= 6 over {a, /, :, ., @} as combined name x 7 types", "size": idx * 7, "completed": true}));
    }
    // complete: lengths 7..=10 over the separators and their ASCII neighbours (word-at-a-time
    // searches confuse neighbouring byte values only inside a full machine word)
    let mut idx2 = 0u64;
    for alphabet in [['a', ':', ';', '9'], ['a', '/', '.', '0']] {
        for len in 7..=10usize {
            let total = 4u64.pow(len as u32);
            for j in 0..total {
                idx2 += 1;
                if !ctx.mine(idx2) {
                    continue;
                }
                let mut s = String::new();
                let mut rem = j;
                for _ in 0..len {
                    s.push(alphabet[(rem % 4) as usize]);
                    rem /= 4;
                }
                let tys: &[&'static str] = if alphabet[1] == ':' { &["maven"] } else { &["golang", "npm"] };
                for ty in tys {
                    split_case(ctx, ty, &s, "exhaustive:word-length-strings");
                }
            }
        }
    }
    if ctx.worker == 0 {
        ctx.st.exhaustive.push(json!({"name": "every string of length 7..=10 over {a, :, ;, 9} (maven) and over {a, /, ., 0} (golang, npm)", "size": idx2, "completed": true}));
    }
    // complete: every Unicode scalar c in "a{c}b", "{c}b" and "a{c}" x 7 types (a separator
    // that is not the documented one - a sentinel, a look-alike, a truncated code point)
    let mut n = 0u64;
    for cp in 0..=0x10FFFFu32 {
        if !ctx.mine(cp as u64) {
            continue;
        }
        let Some(c) = char::from_u32(cp) else { continue };
        for form in [format!("a{c}b"), format!("{c}b"), format!("a{c}")] {
            for ty in &types {
                n += 1;
                if let Some(f) = judge_split(ty, &form) {
                    ctx.st.violation("C18.combined", format!("C18.combined:{}:{}", f.kind, f.tag), f.detail, json!({"kind": "split", "type": ty, "input": form}));
                }
                if let Some(t) = mk_typed(ty) {
                    if let Out::Ok(p) = obs::build(Purl::builder_with_combined_name(t, form.as_str())) {
                        if let Err(f) = judge_inverse(&p) {
                            ctx.st.violation("C18.combined", format!("C18.combined:{}:{}", f.kind, f.tag), f.detail, json!({"kind": "inverse-of-combined", "type": ty, "input": form}));
                        }
                    }
                }
            }
        }
    }
    ctx.st.evaluations += n;
    ctx.st.add("exhaustive:scalar-in-name-x-type", n);
    if ctx.worker == 0 {
        ctx.st.exhaustive.push(json!({"name": "every Unicode scalar c in the combined names a{c}b, {c}b, a{c} x 7 types (split and inverse)", "size": 1_112_064u64 * 21, "completed": true}));
    }
    // every dictionary token alone, after and before a plain word, and after a namespace
    if ctx.worker == 0 {
        for t in gen::DICTIONARY {
            let capitalised: String = {
                let mut c = t.chars();
                c.next().map(|f| f.to_ascii_uppercase().to_string() + c.as_str()).unwrap_or_default()
            };
            for t in [t.to_string(), t.to_ascii_uppercase(), capitalised] {
                for form in [t.clone(), format!("name{t}"), format!("{t}name"), format!("a/b/name{t}"), format!("g:a:name{t}"), format!("a/b/{t}"), format!("name{t}/x"), format!("{t}/Foo/bar"), format!("x/{t}/y/name"), format!("g:a:{t}"), format!("g:{t}"), format!("g:{t}:a"), format!("{t}:a"), format!("org.x:lib:{t}"), format!("name/{t}"), format!("name@{t}"), format!("{t}:{t}"), format!("{t}/{t}")] {
                    for ty in &types {
                        split_case(ctx, ty, &form, "dictionary-tokens");
                    }
                }
            }
        }
    }
    // random hostile strings with separators at random and extreme positions
    let mut r = ctx.rng("c18.split");
    for _ in 0..ctx.share(600_000, 12_000_000) {
        let mut s = gen::mixed_string(&mut r, 0, 20, 40);
        for _ in 0..r.below(6) {
            let sep = *r.pick(&['/', ':']);
            match r.below(4) {
                0 => s.insert(0, sep),
                1 => s.push(sep),
                2 => {
                    s.push(sep);
                    s.push(sep);
                },
                _ => {
                    let mut pos = r.below(s.len() + 1);
                    while !s.is_char_boundary(pos) {
                        pos -= 1;
                    }
                    s.insert(pos, sep);
                },
            }
        }
        let ty = *r.pick(&types);
        split_case(ctx, ty, &s, "random-strings");
    }
    // the inverse on typed PURLs from the C02 / C08 generators
    let mut r = ctx.rng("c18.inverse");
    for _ in 0..ctx.share(300_000, 6_000_000) {
        let t = spell::gen_tuple(&mut r, true);
        let mask = spell::random_mask(&mut r);
        let s = spell::spell(&mut r, &t, mask).assemble();
        if let Out::Ok(p) = obs::parse::<PackageType>(&s) {
            inverse_case(ctx, &p, json!({"kind": "inverse-of-parsed", "input": s}));
        }
    }
}

pub fn replay(_monitor: &str, case: &Value) -> Result<Option<Fail>, String> {
    match str_field(case, "kind")? {
        "split" => Ok(judge_split(str_field(case, "type")?, str_field(case, "input")?)),
        "inverse-of-parsed" => Ok(judge_inverse_str(str_field(case, "input")?).and_then(|r| r.err())),
        "inverse-of-combined" => {
            let t = mk_typed(str_field(case, "type")?).ok_or("unknown type")?;
            Ok(match obs::build(Purl::builder_with_combined_name(t, str_field(case, "input")?)) {
                Out::Ok(p) => judge_inverse(&p).err(),
                _ => None,
            })
        },
        o => Err(format!("unknown case kind {o}")),
    }
}
