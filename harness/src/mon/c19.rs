//! C19 — equality, hashing and ordering agree with the canonical string.
//!
//! Algebraic monitor over batches of values that are biased towards near-collisions: several
//! spellings of one tuple (must collapse), tuples differing in one character or with one
//! separator moved between adjacent fields (must not collapse, strings must differ).

use std::borrow::Cow;
use std::cmp::Ordering;
use std::collections::hash_map::DefaultHasher;
use std::collections::{BTreeSet, HashSet};
use std::fmt::Debug;
use std::hash::{Hash, Hasher};
use std::str::FromStr;

use purl::{GenericPurl, PackageType, PurlShape, SmallString};
use serde::{Deserialize, Serialize};
use serde_json::{json, Value};

use super::{str_field, Fail};
use crate::exec::{self, run_hist};
use crate::gen;
use crate::hist::{Call, CsVal, Hist};
use crate::obs::{self, guard, Ctx, Out, Tier};
use crate::rng::{fnv, Rng};
use crate::spell;

pub const RULE: &str = "a case is an ordered pair of PURL values of one type parameter inside a batch; non-trivial = the pair is a designed near-collision (two spellings / twins of one tuple, or tuples differing by one character or one moved separator); distinct by hash of the two canonical strings";

pub fn requirements(tier: Tier) -> Vec<(&'static str, u64)> {
    let q = tier == Tier::Quick;
    vec![
        ("batches", if q { 1_500 } else { 50_000 }),
        ("pairs-compared", if q { 5_000_000 } else { 200_000_000 }),
        ("equal-pairs-seen", 50_000),
        ("near-collision-values", 50_000),
        ("batches:String", 300),
        ("batches:SmallString", 300),
        ("batches:Cow", 300),
        ("batches:PackageType", 300),
        ("set-size-checks", 1_500),
        ("escape-sweep:batches", 10),
        ("escape-sweep:values", 4_000),
    ]
}

/// Where a value comes from (for replay).
#[derive(Clone, Debug, Serialize, Deserialize)]
pub enum Src {
    Parse(String),
    Build { hist: Hist, borrowed: bool },
}

fn hist_of(ty: &str, ns: &str, name: &str, ver: &str, quals: &[(String, String)], sub: &str) -> Hist {
    let mut calls = Vec::new();
    if !ns.is_empty() {
        calls.push(Call::Ns(ns.to_string()));
    }
    if !ver.is_empty() {
        calls.push(Call::Ver(ver.to_string()));
    }
    for (k, v) in quals {
        calls.push(Call::Qual(k.clone(), v.clone()));
    }
    if !sub.is_empty() {
        calls.push(Call::Sub(sub.to_string()));
    }
    Hist { ty: ty.to_string(), name: name.to_string(), calls }
}

#[derive(Clone, Debug)]
struct Ft {
    ty: String,
    ns: String,
    name: String,
    ver: String,
    quals: Vec<(String, String)>,
    sub: String,
}

impl Ft {
    fn hist(&self) -> Hist {
        hist_of(&self.ty, &self.ns, &self.name, &self.ver, &self.quals, &self.sub)
    }
}

fn word(r: &mut Rng) -> String {
    match r.below(6) {
        0 => gen::mixed_string(r, 1, 5, 60),
        1 => r.pick(&["a", "b", "A", "n", "1", "x.y", "a-b", "A_b"]).to_string(),
        _ => gen::mixed_string(r, 1, 4, 0),
    }
}

/// Near-collision variants of `b` (each differs from `b` in a way that must or must not matter).
fn variants(r: &mut Rng, b: &Ft, typed: bool) -> Vec<Ft> {
    let mut v = vec![b.clone(), b.clone()];
    // one character changed in one field
    for _ in 0..3 {
        let mut c = b.clone();
        let f = match r.below(4) {
            0 => &mut c.ns,
            1 => &mut c.name,
            2 => &mut c.ver,
            _ => &mut c.sub,
        };
        let mut cs: Vec<char> = f.chars().collect();
        if cs.is_empty() {
            cs.push('z');
        } else {
            let i = r.below(cs.len());
            cs[i] = *r.pick(&['z', 'Z', '/', '@', '?', '#', '&', '=', '%', '+', ' ', 'é', '.', ':']);
        }
        *f = cs.into_iter().collect();
        v.push(c);
    }
    // separators moved between adjacent fields
    let mut c = b.clone();
    c.name = format!("{}/{}", if b.ns.is_empty() { "ns" } else { &b.ns }, b.name);
    c.ns.clear();
    v.push(c);
    let mut c = b.clone();
    c.ns = if b.ns.is_empty() { "ns".into() } else { b.ns.clone() };
    v.push(c);
    let mut c = b.clone();
    c.name = format!("{}@{}", b.name, if b.ver.is_empty() { "1" } else { &b.ver });
    c.ver.clear();
    v.push(c);
    let mut c = b.clone();
    c.ver = if b.ver.is_empty() { "1".into() } else { b.ver.clone() };
    v.push(c);
    for sep in ['?', '#', '&', '=', '%', '+', ' '] {
        // {k: "a<sep>l=c"} vs {k: "a", l: "c"}; version "1<sep>k=a" vs version "1" + {k: a}
        let mut c = b.clone();
        c.quals = vec![("k".into(), format!("a{sep}l=c"))];
        v.push(c);
        let mut c = b.clone();
        c.quals = vec![("k".into(), "a".into()), ("l".into(), "c".into())];
        v.push(c);
        let mut c = b.clone();
        c.ver = format!("1{sep}k=a");
        c.quals.clear();
        v.push(c);
        let mut c = b.clone();
        c.ver = "1".into();
        c.quals = vec![("k".into(), "a".into())];
        v.push(c);
        let mut c = b.clone();
        c.name = format!("{}{sep}s", b.name);
        c.sub.clear();
        v.push(c);
        let mut c = b.clone();
        c.quals = vec![("k".into(), format!("v{sep}s"))];
        c.sub.clear();
        v.push(c);
    }
    let mut c = b.clone();
    c.sub = "s".into();
    v.push(c.clone());
    c.quals = vec![("k".into(), "v".into())];
    v.push(c);
    // things that must collapse: key case, type case, empty-valued qualifier, literal escapes do NOT collapse
    let mut c = b.clone();
    c.quals = b.quals.iter().map(|(k, v)| (k.to_ascii_uppercase(), v.clone())).collect();
    v.push(c);
    let mut c = b.clone();
    c.quals.push(("zzempty".into(), String::new()));
    v.push(c);
    if !typed {
        let mut c = b.clone();
        c.ty = b.ty.to_ascii_uppercase();
        v.push(c);
    } else {
        // name-rule collapses (pypi, nuget) and non-collapses (others)
        let mut c = b.clone();
        c.name = b.name.replace('-', "_").to_uppercase();
        v.push(c);
        let mut c = b.clone();
        c.name = b.name.replace('-', "..");
        v.push(c);
    }
    let mut c = b.clone();
    c.name = b.name.replace('a', "%61");
    v.push(c);
    let mut c = b.clone();
    c.ns = format!("{}/", b.ns);
    v.push(c);
    let mut c = b.clone();
    c.ns = b.ns.replace('/', "//");
    v.push(c);
    // textually different values that a "smarter" comparison might merge: leading zeros, letter
    // case, surrounding space, trailing dot, composed vs decomposed accents — in every field
    let similar = |x: &str| -> Vec<String> {
        vec![
            format!("{x}1.01"),
            format!("{x}1.1"),
            format!("{x}1.10"),
            format!("{x}01.1"),
            format!("{x}1.1.0"),
            format!("{x}rc"),
            format!("{x}RC"),
            format!("{x}Rc"),
            format!(" {x}rc"),
            format!("{x}rc "),
            format!("{x}rc."),
            format!("{x}\u{e9}"),
            format!("{x}e\u{301}"),
            format!("{x}a+b"),
            format!("{x}a b"),
            format!("{x}a%20b"),
        ]
    };
    for t in similar(&b.ver) {
        let mut c = b.clone();
        c.ver = t;
        v.push(c);
    }
    for t in similar("") {
        let mut c = b.clone();
        c.name = format!("{}{t}", b.name);
        v.push(c);
        let mut c = b.clone();
        c.quals = vec![("k".into(), t.clone())];
        v.push(c);
        let mut c = b.clone();
        c.sub = format!("s/{}", t.trim());
        v.push(c);
        let mut c = b.clone();
        c.ns = format!("n{}", t.replace('/', ""));
        v.push(c);
    }
    // qualifier keys that are prefixes / extensions of each other, same values
    for keys in [&["vcs"][..], &["vcs_url"], &["vc"], &["vcs", "z"], &["vcs_url", "z"], &["v", "vc"], &["vc", "vcs"]] {
        let mut c = b.clone();
        c.quals = keys.iter().map(|k| (k.to_string(), "git".to_string())).collect();
        v.push(c);
    }
    // checksum spelled differently (order / case): must collapse
    let mut c = b.clone();
    c.quals = vec![("checksum".into(), "B:FF,a:00".into())];
    v.push(c);
    let mut c = b.clone();
    c.quals = vec![("Checksum".into(), "a:00,b:ff".into())];
    v.push(c);
    v
}

fn hash_of<T: Hash>(v: &T) -> u64 {
    let mut h = DefaultHasher::new();
    v.hash(&mut h);
    h.finish()
}

/// All algebraic clauses on a batch. Returns the first failure with the indices involved.
pub fn check_batch<T>(vals: &[(GenericPurl<T>, String)]) -> (u64, u64, Option<(Fail, Vec<usize>)>)
where
    T: PurlShape + Clone + Eq + Hash + Ord + Debug,
{
    let mut pairs = 0u64;
    let mut equal = 0u64;
    let n = vals.len();
    for i in 0..n {
        for j in 0..n {
            pairs += 1;
            let (a, sa) = &vals[i];
            let (b, sb) = &vals[j];
            let eq = a == b;
            let seq = sa == sb;
            if eq && i != j {
                equal += 1;
            }
            if eq != seq {
                let kind = if seq { "same-string-but-unequal" } else { "equal-but-different-strings" };
                return (pairs, equal, Some((Fail::tagged(kind, "", format!("values printing as {sa:?} and {sb:?}: == is {eq}")), vec![i, j])));
            }
            if eq && hash_of(a) != hash_of(b) {
                return (pairs, equal, Some((Fail::tagged("equal-but-hash-differs", "", format!("{sa:?} == {sb:?} but their hashes differ")), vec![i, j])));
            }
            let c = a.cmp(b);
            if (c == Ordering::Equal) != eq {
                return (pairs, equal, Some((Fail::tagged("cmp-equal-disagrees-with-eq", "", format!("{sa:?} vs {sb:?}: cmp = {c:?}, == is {eq}")), vec![i, j])));
            }
            if a.partial_cmp(b) != Some(c) {
                return (pairs, equal, Some((Fail::tagged("partial-cmp-disagrees-with-cmp", "", format!("{sa:?} vs {sb:?}")), vec![i, j])));
            }
            if b.cmp(a) != c.reverse() {
                return (pairs, equal, Some((Fail::tagged("order-not-antisymmetric", "", format!("{sa:?} vs {sb:?}: cmp = {c:?}, reverse cmp = {:?}", b.cmp(a))), vec![i, j])));
            }
        }
    }
    // transitivity / totality: sort, then every earlier element must be <= every later one
    let mut idx: Vec<usize> = (0..n).collect();
    idx.sort_by(|&x, &y| vals[x].0.cmp(&vals[y].0));
    for a in 0..n {
        for b in (a + 1)..n {
            pairs += 1;
            if vals[idx[a]].0.cmp(&vals[idx[b]].0) == Ordering::Greater {
                return (
                    pairs,
                    equal,
                    Some((Fail::tagged("order-not-transitive", "", format!("after sorting, {:?} precedes {:?} although it compares greater", vals[idx[a]].1, vals[idx[b]].1)), (0..n).collect())),
                );
            }
        }
    }
    // de-duplication by value and by string agree
    let hs: HashSet<&GenericPurl<T>> = vals.iter().map(|(p, _)| p).collect();
    let bs: BTreeSet<&GenericPurl<T>> = vals.iter().map(|(p, _)| p).collect();
    let ss: HashSet<&String> = vals.iter().map(|(_, s)| s).collect();
    if hs.len() != ss.len() || bs.len() != ss.len() {
        return (
            pairs,
            equal,
            Some((Fail::tagged("set-sizes-differ", "", format!("HashSet<T> has {} elements, BTreeSet<T> {}, HashSet<String> {}", hs.len(), bs.len(), ss.len())), (0..n).collect())),
        );
    }
    (pairs, equal, None)
}

fn value_of<'a, T>(src: &'a Src, mk_owned: &dyn Fn(&'a str) -> Option<T>, mk_borrowed: &dyn Fn(&'a str) -> Option<T>, parse: &dyn Fn(&str) -> Option<GenericPurl<T>>) -> Option<(GenericPurl<T>, String)>
where
    T: PurlShape + Clone + crate::exec::Reparse,
    T::Error: Debug,
{
    let p = match src {
        Src::Parse(s) => parse(s)?,
        Src::Build { hist, borrowed } => {
            let run = run_hist(hist, if *borrowed { mk_borrowed } else { mk_owned })?;
            obs::build(run.builder?).ok()?
        },
    };
    let s = obs::show(&p).ok()?;
    Some((p, s))
}

fn parse_opt<T>(s: &str) -> Option<GenericPurl<T>>
where
    T: FromStr + PurlShape,
    <T as PurlShape>::Error: From<<T as FromStr>::Err> + Debug,
{
    obs::parse::<T>(s).ok()
}

fn no_parse<T>(_: &str) -> Option<GenericPurl<T>> {
    None
}

/// Run the batch for one type parameter; returns (pairs, equal pairs, failure with sources).
pub fn run_batch(tp: &str, srcs: &[Src]) -> (u64, u64, u64, Option<(Fail, Vec<Src>)>) {
    macro_rules! go {
        ($t:ty, $own:expr, $bor:expr, $parse:expr) => {{
            let mut vals = Vec::new();
            let mut kept = Vec::new();
            for s in srcs {
                if let Some(v) = value_of::<$t>(s, $own, $bor, $parse) {
                    vals.push(v);
                    kept.push(s.clone());
                }
            }
            let (pairs, equal, f) = match guard("batch comparisons", || check_batch(&vals)) {
                Out::Ok(r) => r,
                o => (0, 0, Some((Fail::tagged("panicked", o.kind(), format!("comparison panicked: {}", o.kind())), (0..kept.len()).collect()))),
            };
            (pairs, equal, vals.len() as u64, f.map(|(f, idx)| (f, idx.into_iter().map(|i| kept[i].clone()).collect())))
        }};
    }
    match tp {
        "String" => go!(String, &exec::mk_string, &exec::mk_string, &parse_opt::<String>),
        "SmallString" => go!(SmallString, &exec::mk_small, &exec::mk_small, &parse_opt::<SmallString>),
        "Cow" => go!(Cow<str>, &exec::mk_cow_owned, &exec::mk_cow_borrowed, &no_parse::<Cow<str>>),
        _ => go!(PackageType, &exec::mk_typed, &exec::mk_typed, &parse_opt::<PackageType>),
    }
}

fn make_batch(r: &mut Rng, typed: bool) -> Vec<Src> {
    let mut srcs = Vec::new();
    let bases = r.range(1, 3);
    for _ in 0..bases {
        let ty = if typed { r.pick(&crate::model::KNOWN_TYPES).to_string() } else { r.pick(&["t", "tt", "a.b+c-1"]).to_string() };
        let base = Ft {
            ty,
            ns: if typed || r.coin() { word(r).replace('/', "") + "x" } else { String::new() },
            name: word(r) + "a-b",
            ver: if r.coin() { word(r) } else { String::new() },
            quals: if r.coin() { vec![("k".into(), word(r))] } else { vec![] },
            sub: if r.coin() { "x/y".into() } else { String::new() },
        };
        for v in variants(r, &base, typed) {
            srcs.push(Src::Build { hist: v.hist(), borrowed: r.coin() });
        }
        // several spellings of one tuple, parsed
        let t = spell::gen_tuple(r, typed);
        for _ in 0..4 {
            let mask = spell::random_mask(r);
            srcs.push(Src::Parse(spell::spell(r, &t, mask).assemble()));
        }
        // and its builder-made twin
        let c = t.comps();
        let mut h = hist_of(&c.ty, &c.ns.join("/"), &c.name, c.ver.as_deref().unwrap_or(""), &c.quals, &c.sub.join("/"));
        if let Some(cs) = &t.checksum {
            h.calls.retain(|x| !matches!(x, Call::Qual(k, _) if k == "checksum"));
            h.calls.push(Call::Checksum(Some(cs.iter().map(|(a, b)| (a.to_uppercase(), CsVal::Bytes(b.clone()))).collect())));
        }
        srcs.push(Src::Build { hist: h, borrowed: false });
    }
    // detours through an immutable PURL: add something, build, take it out again — the
    // result must be the very value a direct history gives (no hidden state survives)
    let detour_base = Ft { ty: if typed { "npm".into() } else { "t".into() }, ns: "d".into(), name: "detour".into(), ver: "1".into(), quals: vec![("k".into(), "v".into())], sub: String::new() };
    srcs.push(Src::Build { hist: detour_base.hist(), borrowed: false });
    for (add, undo) in [
        (Call::Qual("checksum".into(), "B:FF,a:00".into()), Call::NoQual("checksum".into())),
        (Call::Qual("zz".into(), "1".into()), Call::NoQual("ZZ".into())),
        (Call::Sub("x/y".into()), Call::NoSub),
        (Call::Checksum(Some(vec![("sha1".into(), CsVal::Bytes(vec![1, 2]))])), Call::Checksum(None)),
        (Call::Typed(0, Some("u".into())), Call::Typed(0, None)),
    ] {
        let mut h = detour_base.hist();
        h.calls.push(add);
        h.calls.push(Call::Rebuild);
        h.calls.push(undo);
        if r.coin() {
            h.calls.push(Call::Rebuild);
        }
        srcs.push(Src::Build { hist: h, borrowed: r.coin() });
    }
    // the same, with the change made through each mutation path after the value was observed:
    // twins are the direct histories without the detour
    for m in crate::hist::qual_mutations("k", "w") {
        let mut h = detour_base.hist();
        h.calls.push(Call::Rebuild);
        h.calls.push(m.clone());
        srcs.push(Src::Build { hist: h, borrowed: r.coin() });
        let mut h = detour_base.hist();
        h.calls.push(m);
        srcs.push(Src::Build { hist: h, borrowed: false });
    }
    r.shuffle(&mut srcs);
    srcs.truncate(384);
    srcs
}

/// One field swept over every single ASCII character and every (control character, hex
/// digit) pair, everything else fixed: values that differ only where an escape is written.
/// `%0` + `1`, `%01` and `%1` + `0` must stay three different strings.
fn escape_sweep_batch(field: usize, typed: bool) -> Vec<Src> {
    let base = Ft { ty: if typed { "cargo".into() } else { "t".into() }, ns: "s".into(), name: "n".into(), ver: "1".into(), quals: vec![("k".into(), "v".into())], sub: "p".into() };
    let mut texts: Vec<String> = (0u8..128).map(|b| (b as char).to_string()).collect();
    for hi in 0u8..16 {
        for h in "0123456789ABCDEFabcdef".chars() {
            texts.push(format!("{}{h}", hi as char));
        }
    }
    // the same after a plain character, and doubled (state carried between characters)
    for b in [0u8, 1, 9, 0x0f, 0x10, 0x1f, 0x20, 0x7f] {
        texts.push(format!("a{}", b as char));
        texts.push(format!("{}{}", b as char, b as char));
        texts.push(format!("{}a", b as char));
    }
    texts
        .into_iter()
        .map(|t| {
            let mut f = base.clone();
            match field {
                0 => f.ns = t,
                1 => f.name = t,
                2 => f.ver = t,
                3 => f.quals[0].1 = t,
                _ => f.sub = t,
            }
            Src::Build { hist: f.hist(), borrowed: false }
        })
        .collect()
}

pub fn run(ctx: &mut Ctx) {
    for (i, (field, tp)) in (0..5usize).flat_map(|f| ["String", "PackageType"].map(|tp| (f, tp))).enumerate() {
        if !ctx.mine(i as u64) {
            continue;
        }
        let srcs = escape_sweep_batch(field, tp == "PackageType");
        let (pairs, _equal, n, f) = run_batch(tp, &srcs);
        ctx.st.evaluations += pairs;
        ctx.st.add("pairs-compared", pairs);
        ctx.st.add("escape-sweep:values", n);
        ctx.st.count("escape-sweep:batches");
        if let Some((f, items)) = f {
            let items = crate::shrink::shrink_vec(&items, &mut |cs| matches!(run_batch(tp, cs).3, Some((g, _)) if g.kind == f.kind));
            let g = run_batch(tp, &items).3.map(|(g, _)| g).unwrap_or(f);
            ctx.st.violation("C19.algebra", format!("C19.algebra:{}:{}", g.kind, tp), g.detail, json!({"type_parameter": tp, "items": items}));
        }
    }
    if ctx.worker == 0 {
        ctx.st.exhaustive.push(json!({"name": "each of namespace, name, version, qualifier value, subpath swept over every ASCII character and every (control character, hex digit) pair, all pairs of the resulting values compared; String and PackageType", "size": 10 * 504u64 * 504, "completed": true}));
    }
    let mut r = ctx.rng("c19");
    for b in 0..ctx.share(2_000, 100_000) {
        let tp = ["String", "SmallString", "Cow", "PackageType"][(b % 4) as usize];
        let srcs = make_batch(&mut r, tp == "PackageType");
        let (pairs, equal, n, f) = run_batch(tp, &srcs);
        ctx.st.count("batches");
        ctx.st.count(match tp {
            "String" => "batches:String",
            "SmallString" => "batches:SmallString",
            "Cow" => "batches:Cow",
            _ => "batches:PackageType",
        });
        ctx.st.evaluations += pairs;
        ctx.st.add("pairs-compared", pairs);
        ctx.st.add("equal-pairs-seen", equal);
        ctx.st.add("near-collision-values", n);
        ctx.st.count("set-size-checks");
        // distinct non-trivial pairs: count per batch the designed near-collision values (bounded bookkeeping)
        for (i, s) in srcs.iter().enumerate().take(64) {
            ctx.st.nontrivial(fnv(format!("{tp}{i}{s:?}").as_bytes()));
        }
        ctx.st.sample(|| json!({"type_parameter": tp, "batch_size": n, "pairs_compared": pairs, "equal_pairs": equal, "first_sources": srcs.iter().take(3).collect::<Vec<_>>()}));
        if let Some((f, items)) = f {
            // shrink: keep only the items needed
            let items = crate::shrink::shrink_vec(&items, &mut |cs| matches!(run_batch(tp, cs).3, Some((g, _)) if g.kind == f.kind));
            let g = run_batch(tp, &items).3.map(|(g, _)| g).unwrap_or(f);
            ctx.st.violation("C19.algebra", format!("C19.algebra:{}:{}", g.kind, tp), g.detail, json!({"type_parameter": tp, "items": items}));
        }
    }
}

pub fn replay(_monitor: &str, case: &Value) -> Result<Option<Fail>, String> {
    let items: Vec<Src> = serde_json::from_value(case.get("items").cloned().unwrap_or(Value::Null)).map_err(|e| e.to_string())?;
    Ok(run_batch(str_field(case, "type_parameter")?, &items).3.map(|(f, _)| f))
}
