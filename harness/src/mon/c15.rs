//! C15 — package type names map one-to-one, case-insensitively.
//!
//! Oracle: the table R8 of (variant, lower-case name) and the equations of the statement.

use std::str::FromStr;

use purl::{PackageType, Purl, PurlShape};
use serde_json::{json, Value};

use super::{str_field, Fail};
use crate::exec::ALL_TYPES;
use crate::gen;
use crate::model::ascii_lower;
use crate::obs::{guard, Ctx, Out, Tier};
use crate::rng::fnv;

pub const RULE: &str = "a case is one string given to PackageType::from_str (or one variant whose spellings are compared); non-trivial = a case variant of a known name, a one-edit neighbour, a look-alike, a padded form or another spec type name; distinct by hash of the string";

/// Every other type name of the PURL spec (none of them is built in).
pub const SPEC_OTHER_TYPES: &[&str] = &[
    "alpm", "apk", "bitbucket", "bitnami", "cocoapods", "composer", "conan", "conda", "cpan", "cran", "deb", "docker",
    "generic", "github", "hackage", "hex", "huggingface", "luarocks", "mlflow", "oci", "pub", "qpkg", "rpm", "swid",
    "swift",
];

pub fn requirements(tier: Tier) -> Vec<(&'static str, u64)> {
    let space: u64 = if tier == Tier::Quick { (0..=5u32).map(|l| 23u64.pow(l)).sum::<u64>() + 15u64.pow(6) } else { (0..=6u32).map(|l| 23u64.pow(l)).sum() };
    vec![
        ("exhaustive:case-variants", 192),
        ("exhaustive:case-variants-accepted", 192),
        ("exhaustive:short-strings", space),
        ("exhaustive:one-edit-neighbours", 3_000),
        ("variants-spellings-agree", 7),
        ("other-spec-types-refused", 25),
        ("padded-forms-refused", 100),
        ("random-strings", 10_000),
        ("long-strings-with-name-prefix", 1_000),
        ("joined-names", 500),
        ("accepted-in-enumerated-space", 7),
        ("structured-padding", 40_000_000),
        ("in-type-position-of-a-purl", 1_000_000),
        ("dense:same-length-ascii", 1_000_000_000),
        // the 2^len case variants of the names lie inside the dense ASCII spaces
        ("dense:accepted", if tier == Tier::Quick { 8 + 8 + 16 } else { 8 + 8 + 16 + 3 * 32 }),
    ]
}

/// R8, by variant (not through the library).
pub fn r8(t: PackageType) -> &'static str {
    match t {
        PackageType::Cargo => "cargo",
        PackageType::Gem => "gem",
        PackageType::Golang => "golang",
        PackageType::Maven => "maven",
        PackageType::Npm => "npm",
        PackageType::NuGet => "nuget",
        PackageType::PyPI => "pypi",
        _ => "?",
    }
}

/// Whatever parses to a type equals that type's name once ASCII-lower-cased; names in any
/// letter case parse to their type.
pub fn judge_str(s: &str) -> (bool, Option<Fail>) {
    let got = guard("PackageType::from_str", || PackageType::from_str(s));
    let expected = ALL_TYPES.iter().copied().find(|t| r8(*t) == ascii_lower(s));
    match (got, expected) {
        (Out::Panic(m), _) => (false, Some(Fail::tagged("panicked", m.clone(), format!("PackageType::from_str({s:?}) panicked: {m}")))),
        (Out::Ok(Ok(t)), Some(e)) if t == e => (true, None),
        (Out::Ok(Ok(t)), Some(e)) => (true, Some(Fail::tagged("wrong-variant", r8(e), format!("{s:?} parsed to {t:?}, expected {e:?}")))),
        (Out::Ok(Ok(t)), None) => (true, Some(Fail::tagged("foreign-string-accepted", r8(t), format!("{s:?} is taken for {t:?} although it is not a case variant of {:?}", r8(t))))),
        (Out::Ok(Err(_)), Some(e)) => (false, Some(Fail::tagged("case-variant-refused", r8(e), format!("{s:?} is a case variant of {:?} but was refused", r8(e))))),
        (Out::Ok(Err(_)), None) => (false, None),
        (Out::Err(_), _) => unreachable!(),
    }
}

/// The same through the type position of a PURL: `pkg:{s}/n` is a typed PURL of type T exactly
/// when `s` is a case variant of T's name (for `s` free of the characters that end the type
/// position).
pub fn judge_in_purl(s: &str) -> Option<Fail> {
    if s.contains(['?', '#']) {
        return None;
    }
    // the type position is what stands between `pkg:` (and any slashes after it) and the next
    // '/': for `s` with slashes inside, its first non-empty piece
    let text = format!("pkg:{s}/n");
    let got = guard("Purl::from_str", || Purl::from_str(&text));
    let s_full = s;
    let s = s.trim_start_matches('/').split('/').next().unwrap_or("");
    if s_full.contains('/') {
        // only the converse clause: whatever is accepted has a case variant of the name there
        return match got {
            Out::Panic(m) => Some(Fail::tagged("panicked", m.clone(), format!("Purl::from_str({text:?}) panicked: {m}"))),
            Out::Ok(Ok(p)) if r8(*p.package_type()) != ascii_lower(s) => Some(Fail::tagged(
                "foreign-string-accepted-in-purl",
                r8(*p.package_type()),
                format!("{text:?} is taken for a {:?} PURL although its type position holds {s:?}", p.package_type()),
            )),
            _ => None,
        };
    }
    let expected = ALL_TYPES.iter().copied().find(|t| r8(*t) == ascii_lower(s));
    match (got, expected) {
        (Out::Panic(m), _) => Some(Fail::tagged("panicked", m.clone(), format!("Purl::from_str({text:?}) panicked: {m}"))),
        (Out::Ok(Ok(p)), Some(e)) if *p.package_type() == e => None,
        (Out::Ok(Ok(p)), Some(e)) => Some(Fail::tagged("wrong-variant-in-purl", r8(e), format!("{text:?} parsed to type {:?}, expected {e:?}", p.package_type()))),
        (Out::Ok(Ok(p)), None) => Some(Fail::tagged(
            "foreign-string-accepted-in-purl",
            r8(*p.package_type()),
            format!("{text:?} is taken for a {:?} PURL although {s:?} is not a case variant of {:?}", p.package_type(), r8(*p.package_type())),
        )),
        // maven needs a namespace: `pkg:maven/n` is refused for that reason alone
        (Out::Ok(Err(_)), Some(e)) if r8(e) != "maven" => Some(Fail::tagged("case-variant-refused-in-purl", r8(e), format!("{text:?}: {s:?} is a case variant of {:?} but the PURL was refused", r8(e)))),
        _ => None,
    }
}

/// All spellings of one variant agree on the lower-case name.
pub fn judge_variant(t: PackageType) -> Option<Fail> {
    let want = r8(t);
    let b = Purl::builder(t, "n").with_namespace("g");
    let in_purl = match crate::obs::build(b) {
        Out::Ok(p) => {
            // the type string inside a formatted PURL is the name whatever the format flags
            // (which may pad or cut the whole text, not the type alone)
            let plain = p.to_string();
            if let Out::Ok(Some((spec, o))) = crate::obs::show_with_flags(&p, &plain) {
                return Some(Fail::tagged("type-in-formatted-purl", format!("{want}:{spec}"), format!("{t:?}: format spec {spec} gives {o:?}, plain text {plain:?}")));
            }
            // and PackageType's own Display under the same flags
            for (spec, o, fill) in [("{:12}", format!("{:12}", t), ' '), ("{:*>12}", format!("{:*>12}", t), '*'), ("{:#}", format!("{:#}", t), ' ')] {
                if o.trim_matches(fill) != want {
                    return Some(Fail::tagged("spelling-differs", format!("{want}:Display {spec}"), format!("{t:?}: Display with {spec} gives {o:?}, the name is {want:?}")));
                }
            }
            plain
        },
        o => return Some(Fail::tagged("build-failed", want, format!("building a {want} PURL: {}", o.kind()))),
    };
    let serde_form = serde_json::to_string(&t).unwrap_or_else(|e| format!("<{e}>"));
    let spellings: [(&str, String); 7] = [
        ("name()", t.name().to_string()),
        ("Display", t.to_string()),
        ("AsRef<str>", AsRef::<str>::as_ref(&t).to_string()),
        ("<&str>::from", <&'static str>::from(t).to_string()),
        ("PurlShape::package_type()", t.package_type().into_owned()),
        ("type in PURL string", in_purl.strip_prefix("pkg:").and_then(|r| r.split('/').next()).unwrap_or("").to_string()),
        ("serde", serde_form.trim_matches('"').to_string()),
    ];
    for (how, s) in &spellings {
        if s != want {
            return Some(Fail::tagged("spelling-differs", format!("{want}:{how}"), format!("{t:?}: {how} gives {s:?}, the name is {want:?}")));
        }
    }
    match serde_json::from_str::<PackageType>(&format!("\"{want}\"")) {
        Ok(x) if x == t => {},
        o => return Some(Fail::tagged("serde-name-not-read-back", want, format!("serde_json::from_str({want:?}) = {o:?}"))),
    }
    None
}

fn one(ctx: &mut Ctx, s: &str, counter: &'static str, in_space: bool) {
    ctx.st.evaluations += 1;
    ctx.st.count(counter);
    let (accepted, f) = judge_str(s);
    if accepted {
        if in_space {
            ctx.st.count("accepted-in-enumerated-space");
        }
        if counter == "exhaustive:case-variants" {
            ctx.st.count("exhaustive:case-variants-accepted");
        }
    }
    if counter != "exhaustive:short-strings" || accepted {
        ctx.st.nontrivial(fnv(s.as_bytes()));
    }
    if let Some(f) = f {
        ctx.st.violation("C15.names", f.signature("C15.names", s), f.detail, json!({"kind": "string", "input": s}));
    }
    if let Some(f) = judge_in_purl(s) {
        ctx.st.violation("C15.names", f.signature("C15.names", s), f.detail, json!({"kind": "in-purl", "input": s}));
    }
    ctx.st.count("in-type-position-of-a-purl");
}

/// A string the library takes for a package type is judged in full (`one`); the others only
/// counted. Used where the volume is too large for per-string bookkeeping.
fn bulk(ctx: &mut Ctx, s: &str, accepted_counter: &'static str) {
    if PackageType::from_str(s).is_ok() {
        one(ctx, s, accepted_counter, false);
    }
}

/// Names embedded in byte-structured strings: `pad^k x name`, `name x pad^k`, `x pad^k name`,
/// `name pad^k x` for every ASCII pad byte, every ASCII byte x and k <= 8 (what a packed-word
/// or length-prefixed comparison could mistake for the name), and every ASCII prefix / suffix
/// of up to three bytes.
fn structured_padding(ctx: &mut Ctx) {
    let mut idx = 0u64;
    let mut n = 0u64;
    let res = guard("PackageType::from_str (structured padding)", || {
        let mut buf = String::new();
        for t in ALL_TYPES {
            let name = r8(t);
            for pad in 0u8..128 {
                for x in 0u8..128 {
                    idx += 1;
                    if !ctx.mine(idx) {
                        continue;
                    }
                    for k in 0..=8usize {
                        for form in 0..4 {
                            buf.clear();
                            let padding = |b: &mut String| (0..k).for_each(|_| b.push(pad as char));
                            match form {
                                0 => {
                                    padding(&mut buf);
                                    buf.push(x as char);
                                    buf.push_str(name);
                                },
                                1 => {
                                    buf.push_str(name);
                                    buf.push(x as char);
                                    padding(&mut buf);
                                },
                                2 => {
                                    buf.push(x as char);
                                    padding(&mut buf);
                                    buf.push_str(name);
                                },
                                _ => {
                                    buf.push_str(name);
                                    padding(&mut buf);
                                    buf.push(x as char);
                                },
                            }
                            n += 1;
                            bulk(ctx, &buf, "structured-padding:accepted");
                        }
                    }
                }
            }
            // every ASCII prefix / suffix of three bytes (shorter ones are covered above)
            for a in 0u8..128 {
                idx += 1;
                if !ctx.mine(idx) {
                    continue;
                }
                for b in 0u8..128 {
                    for c in 0u8..128 {
                        for form in 0..3 {
                            buf.clear();
                            match form {
                                0 => {
                                    buf.extend([a as char, b as char, c as char]);
                                    buf.push_str(name);
                                },
                                1 => {
                                    buf.push_str(name);
                                    buf.extend([a as char, b as char, c as char]);
                                },
                                _ => {
                                    buf.extend([a as char, b as char]);
                                    buf.push_str(name);
                                    buf.push(c as char);
                                },
                            }
                            n += 1;
                            bulk(ctx, &buf, "structured-padding:accepted");
                        }
                    }
                }
            }
        }
    });
    if let Out::Panic(m) = res {
        ctx.st.violation("C15.names", format!("C15.names:panicked:{m}"), format!("PackageType::from_str panicked on a padded name: {m}"), json!({"kind": "string", "input": ""}));
    }
    ctx.st.evaluations += n;
    ctx.st.add("structured-padding", n);
    if ctx.worker == 0 {
        ctx.st.exhaustive.push(json!({"name": "seven names x {pad^k x name, name x pad^k, x pad^k name, name pad^k x : pad, x in ASCII, k <= 8} and x every 3-byte ASCII prefix, suffix and 2+1 surround", "size": 7u64 * (128 * 128 * 9 * 4 + 128 * 128 * 128 * 3), "completed": true}));
    }
}

/// Dense sampling of ASCII strings that have the length of a known name: every string of
/// length 3 and 4 (thorough: 5), and seeded random ones of length 5 and 6. A recogniser that
/// compares a digest, a checksum or a packed word instead of the text shows here.
fn dense_same_length(ctx: &mut Ctx) {
    let quick = ctx.quick();
    let mut n = 0u64;
    let mut buf = [0u8; 8];
    let (w, nw) = (ctx.worker as u64, ctx.nworkers as u64);
    let exhaustive_lens: &[usize] = if quick { &[3, 4] } else { &[3, 4, 5] };
    for &len in exhaustive_lens {
        let total = 128u64.pow(len as u32);
        let mut j = w;
        while j < total {
            let mut rem = j;
            for b in buf.iter_mut().take(len) {
                *b = (rem & 127) as u8;
                rem >>= 7;
            }
            let s = std::str::from_utf8(&buf[..len]).expect("ASCII");
            bulk(ctx, s, "dense:accepted");
            n += 1;
            j += nw;
        }
    }
    let mut r = ctx.rng("c15.dense");
    // quick: length 5 only (three of the seven names); thorough: length 6 (5 is complete)
    let per_len = ctx.share(5_000_000_000, 60_000_000_000);
    for len in [5usize, 6] {
        if quick != (len == 5) {
            continue;
        }
        let mut i = 0u64;
        while i < per_len {
            // eight strings per 64-bit draw would correlate them; one draw per string
            let mut x = r.next();
            for b in buf.iter_mut().take(len) {
                *b = (x & 127) as u8;
                x >>= 7;
            }
            let s = std::str::from_utf8(&buf[..len]).expect("ASCII");
            bulk(ctx, s, "dense:accepted");
            i += 1;
        }
        n += per_len;
        ctx.st.add(if len == 5 { "dense:random-length-5" } else { "dense:random-length-6" }, per_len);
    }
    ctx.st.evaluations += n;
    ctx.st.add("dense:same-length-ascii", n);
    if ctx.worker == 0 {
        ctx.st.exhaustive.push(json!({"name": format!("every ASCII string of length {exhaustive_lens:?}"), "size": exhaustive_lens.iter().map(|l| 128u64.pow(*l as u32)).sum::<u64>(), "completed": true}));
    }
}

const ALPHABET: [char; 23] =
    ['c', 'a', 'r', 'g', 'o', 'e', 'm', 'l', 'n', 'v', 'p', 'u', 't', 'y', 'i', 'ſ', '\u{212A}', 'ı', 'İ', 'ｃ', 'ɡ', '\0', ' '];

pub fn run(ctx: &mut Ctx) {
    if ctx.worker == 0 {
        for t in ALL_TYPES {
            ctx.st.evaluations += 1;
            match judge_variant(t) {
                None => ctx.st.count("variants-spellings-agree"),
                Some(f) => ctx.st.violation("C15.names", format!("C15.names:{}:{}", f.kind, f.tag), f.detail, json!({"kind": "variant", "name": r8(t)})),
            }
        }
        // all 2^len case variants of the seven names
        for t in ALL_TYPES {
            let name = r8(t);
            for bits in 0..(1u32 << name.len()) {
                let s: String = name.chars().enumerate().map(|(i, c)| if bits >> i & 1 == 1 { c.to_ascii_uppercase() } else { c }).collect();
                one(ctx, &s, "exhaustive:case-variants", false);
                ctx.st.sample(|| json!({"input": s, "parses_to": name}));
            }
        }
        for t in SPEC_OTHER_TYPES {
            one(ctx, t, "other-spec-types-refused", false);
            one(ctx, &t.to_ascii_uppercase(), "other-spec-types-refused", false);
        }
        // padded / prefixed / suffixed forms
        for t in ALL_TYPES {
            let n = r8(t);
            for form in [
                format!(" {n}"), format!("{n} "), format!("{n}\0"), format!("\0{n}"), format!("{n}x"), format!("x{n}"), format!("pkg:{n}"), format!("{n}/"), format!("{n}{n}"),
                format!("{n}\n"), format!("\t{n}"), format!("{n}."), format!("{n}-"), format!("{n}+"), format!("{n}\u{301}"), format!("{}", &n[..n.len() - 1]), format!("{}", &n[1..]),
                n.replace('a', "а"), n.replace('o', "ο"), n.replace('e', "е"), n.replace('p', "р"), n.replace('c', "ｃ"), n.replace('g', "ɡ"), n.replace('i', "ı"), n.replace('i', "İ"),
                n.to_uppercase().replace('I', "İ"), n.replace('m', "ｍ"), n.replace('n', "ｎ"), String::new(),
            ] {
                if form != n {
                    one(ctx, &form, "padded-forms-refused", false);
                }
            }
        }
        // long strings that begin with a name (length arithmetic that wraps at 2^8 / 2^16), and
        // known names joined by characters that are legal in a type
        for t in ALL_TYPES {
            let n = r8(t);
            for pad in ["x", ".", "1", "-"] {
                for extra in (250usize..=262).chain(506..=518).chain(65_530..=65_540) {
                    one(ctx, &format!("{n}{}", pad.repeat(extra)), "long-strings-with-name-prefix", false);
                    one(ctx, &format!("{}{}", n.to_uppercase(), pad.repeat(extra)), "long-strings-with-name-prefix", false);
                }
            }
            for u in ALL_TYPES {
                for sep in [".", "-", "+", "..", "0"] {
                    one(ctx, &format!("{n}{sep}{}", r8(u)), "joined-names", false);
                    one(ctx, &format!("{n}{sep}{}{sep}{n}", r8(u)), "joined-names", false);
                    one(ctx, &format!("{sep}{n}{sep}"), "joined-names", false);
                }
            }
        }
        // names behind something a tolerant parser might skip: relative-reference prefixes,
        // authority-like prefixes, doubled schemes, dictionary tokens, with and without
        // leading slashes
        let mut prefixes: Vec<String> = [".", "..", "./", "../", "././", "x@", "user:pw@", "@", ":", "::", "pkg:", "pkg:/", "pkg://", "PKG:", "%2E/", "%2e%2e/", "~/", "-/", "+/", "a/", "/a/", "\\", "localhost/", ":8080/"]
            .iter()
            .map(|x| x.to_string())
            .collect();
        prefixes.extend(gen::DICTIONARY.iter().map(|t| t.to_string()));
        for t in ALL_TYPES {
            let n = r8(t);
            for pre in &prefixes {
                for lead in ["", "/", "//", "///"] {
                    for form in [format!("{lead}{pre}{n}"), format!("{lead}{pre}/{n}"), format!("{lead}{}{pre}", n.to_uppercase()), format!("{lead}{pre}{n}/{n}")] {
                        one(ctx, &form, "prefixed-forms", false);
                    }
                }
            }
        }
        ctx.st.exhaustive.push(json!({"name": "all 2^len case variants of the seven names", "size": 192, "completed": true}));
    }
    // every string up to length N over the 23-symbol alphabet
    // quick: length <= 5 over all 23 symbols plus length 6 over the 15 ASCII letters;
    // thorough: length <= 6 over all 23 symbols
    let quick = ctx.quick();
    let mut idx = 0u64;
    for len in 0..=6usize {
        let base: u64 = if quick && len == 6 { 15 } else { 23 };
        let total = base.pow(len as u32);
        for j in 0..total {
            idx += 1;
            if !ctx.mine(idx) {
                continue;
            }
            let mut s = String::new();
            let mut rem = j;
            for _ in 0..len {
                s.push(ALPHABET[(rem % base) as usize]);
                rem /= base;
            }
            one(ctx, &s, "exhaustive:short-strings", true);
        }
    }
    if ctx.worker == 0 {
        ctx.st.exhaustive.push(json!({"name": if quick { "every string of length <= 5 over the 15 letters of the names + {long s, Kelvin sign, dotless i, dotted I, full-width c, script g, NUL, space}, and every string of length 6 over the 15 letters" } else { "every string of length <= 6 over the 15 letters of the names + {long s, Kelvin sign, dotless i, dotted I, full-width c, script g, NUL, space}" }, "size": idx, "completed": true}));
    }
    // one-edit neighbours of every name (insert / delete / replace / transpose), alphabet incl. upper case
    let mut edit_alpha: Vec<char> = ALPHABET.to_vec();
    edit_alpha.extend("CARGOEMLNVPUTYIsSkK0-.+/".chars());
    let mut idx = 0u64;
    for t in ALL_TYPES {
        let base: Vec<char> = r8(t).chars().collect();
        let mut neigh: Vec<String> = Vec::new();
        for i in 0..=base.len() {
            for c in &edit_alpha {
                let mut v = base.clone();
                v.insert(i, *c);
                neigh.push(v.iter().collect());
            }
        }
        for i in 0..base.len() {
            let mut v = base.clone();
            v.remove(i);
            neigh.push(v.iter().collect());
            for c in &edit_alpha {
                let mut v = base.clone();
                v[i] = *c;
                neigh.push(v.iter().collect());
            }
            if i + 1 < base.len() {
                let mut v = base.clone();
                v.swap(i, i + 1);
                neigh.push(v.iter().collect());
            }
        }
        for s in neigh {
            idx += 1;
            if ctx.mine(idx) {
                one(ctx, &s, "exhaustive:one-edit-neighbours", false);
            }
        }
    }
    if ctx.worker == 0 {
        ctx.st.exhaustive.push(json!({"name": "all one-edit neighbours (insert/delete/replace/transpose) of the seven names", "size": idx, "completed": true}));
    }
    structured_padding(ctx);
    dense_same_length(ctx);
    let mut r = ctx.rng("c15");
    for _ in 0..ctx.share(50_000, 2_000_000) {
        let s = match r.below(3) {
            0 => gen::mixed_string(&mut r, 0, 8, 50),
            1 => {
                let n = r8(*r.pick(&ALL_TYPES));
                let mut cs: Vec<char> = n.chars().collect();
                let i = r.below(cs.len());
                cs[i] = crate::gen::hostile_char(&mut r);
                cs.into_iter().collect()
            },
            _ => crate::spell::gen_type(&mut r),
        };
        one(ctx, &s, "random-strings", false);
    }
}

pub fn replay(_monitor: &str, case: &Value) -> Result<Option<Fail>, String> {
    if str_field(case, "kind")? == "in-purl" {
        return Ok(judge_in_purl(str_field(case, "input")?));
    }
    match str_field(case, "kind")? {
        "string" => Ok(judge_str(str_field(case, "input")?).1),
        "variant" => {
            let n = str_field(case, "name")?;
            let t = ALL_TYPES.iter().copied().find(|t| r8(*t) == n).ok_or("unknown variant")?;
            Ok(judge_variant(t))
        },
        o => Err(format!("unknown case kind {o}")),
    }
}
