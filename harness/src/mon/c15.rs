//! C15 — stub (monitor not written yet)
use serde_json::Value;

use super::Fail;
use crate::obs::{Ctx, Tier};

pub const RULE: &str = "";

/// Every other type name of the PURL spec (none of them is built in).
pub const SPEC_OTHER_TYPES: &[&str] = &[
    "alpm", "apk", "bitbucket", "bitnami", "cocoapods", "composer", "conan", "conda", "cpan", "cran", "deb", "docker",
    "generic", "github", "hackage", "hex", "huggingface", "luarocks", "mlflow", "oci", "pub", "qpkg", "rpm", "swid",
    "swift",
];

pub fn requirements(_tier: Tier) -> Vec<(&'static str, u64)> {
    vec![("not-implemented", 1)]
}

pub fn run(_ctx: &mut Ctx) {}

pub fn replay(_monitor: &str, _case: &Value) -> Result<Option<Fail>, String> {
    Err("not implemented".into())
}
