//! C09 — the builder is faithful and serialisation loses nothing.
//!
//! Model-based: every history is run on the real builder and on R7 in lock-step; the parser is
//! used as the inverse of Display; adjacent calls on different fields are swapped and must
//! give the same result.

use std::fmt::Debug;
use std::str::FromStr;

use purl::{PackageType, PurlShape};
use serde_json::{json, Value};

use super::{str_field, Fail};
use crate::exec::{self, run_hist};
use crate::hist::{self, expected_build, sig_ns, sig_sub, BModel, Call, Hist, SetterExpect};
use crate::obs::{self, Ctx, Out, Snap, Tier};
use crate::rng::fnv;
use crate::shrink::shrink_vec;

pub const RULE: &str = "a case is one builder history (initial type and name + calls) for one type parameter; non-trivial = build() succeeds with at least one optional field set or a name the type's rule changes, or build() is refused for a modelled reason; distinct by hash of (type parameter, history)";

pub fn requirements(tier: Tier) -> Vec<(&'static str, u64)> {
    let q = tier == Tier::Quick;
    vec![
        ("histories:String", if q { 200_000 } else { 2_000_000 }),
        ("histories:PackageType", if q { 200_000 } else { 2_000_000 }),
        ("build-ok", 50_000),
        ("build-refused", 10_000),
        ("setter-refused", 1_000),
        ("reparse-checked", 50_000),
        ("commutation-pairs-checked", 50_000),
        ("roundtrip-field-with:/", 100),
        ("roundtrip-field-with:@", 100),
        ("roundtrip-field-with:?", 100),
        ("roundtrip-field-with:#", 100),
        ("roundtrip-field-with:&", 100),
        ("roundtrip-field-with:=", 100),
        ("roundtrip-field-with:%", 100),
        ("roundtrip-field-with:+", 100),
        ("roundtrip-field-with:space", 100),
    ]
}

/// Result of a history as an observer sees it: Ok(accessors, canonical) or Err(name).
fn outcome<'a, T>(h: &'a Hist, mk: &dyn Fn(&'a str) -> Option<T>) -> Option<Out<(Snap, String)>>
where
    T: PurlShape + Clone + crate::exec::Reparse,
    T::Error: Debug,
{
    let run = run_hist(h, mk)?;
    if let Some(p) = run.panic {
        return Some(Out::Panic(p));
    }
    Some(match obs::build(run.builder?) {
        Out::Ok(p) => match obs::show(&p) {
            Out::Ok(c) => Out::Ok((Snap::of(&p), c)),
            Out::Err(e) => Out::Err(e),
            Out::Panic(m) => Out::Panic(m),
        },
        Out::Err(e) => Out::Err(e),
        Out::Panic(m) => Out::Panic(m),
    })
}

pub struct Judged {
    pub ok: bool,
    pub refused: bool,
    pub setter_refused: u32,
    pub reparsed: bool,
    pub commuted: u32,
    pub fields: Vec<String>,
}

pub fn judge<'a, T>(h: &'a Hist, typed: bool, mk: &dyn Fn(&'a str) -> Option<T>, commute: bool) -> (Option<Judged>, Option<Fail>)
where
    T: PurlShape + Clone + FromStr + crate::exec::Reparse,
    <T as PurlShape>::Error: From<<T as FromStr>::Err> + Debug,
{
    // model
    let mut m = BModel::new(&h.ty, &h.name);
    m.typed = typed;
    let mut expects: Vec<(usize, SetterExpect)> = Vec::new();
    for (i, c) in h.calls.iter().enumerate() {
        let e = m.apply(c);
        if e != SetterExpect::Infallible {
            expects.push((i, e));
        }
    }
    // real
    let Some(run) = run_hist(h, mk) else { return (None, None) };
    if let Some(p) = run.panic {
        return (None, Some(Fail::tagged("setter-panicked", p.clone(), format!("a builder call panicked: {p}"))));
    }
    let mut j = Judged { ok: false, refused: false, setter_refused: 0, reparsed: false, commuted: 0, fields: vec![] };
    for ((i, real), (i2, exp)) in run.setters.iter().zip(expects.iter()) {
        debug_assert_eq!(i, i2);
        let call = &h.calls[*i];
        match (real, exp) {
            (Out::Ok(()), SetterExpect::Ok) => {},
            (Out::Err(_), SetterExpect::Err(_)) => {
                // refused, as it must be; which error variant is not this property's business
                j.setter_refused += 1;
            },
            (Out::Ok(()), SetterExpect::Err(want)) => {
                return (None, Some(Fail::tagged("setter-accepted-invalid", call_class(call), format!("call #{i} {call:?} returned Ok; the model says Err({want})"))));
            },
            (Out::Err(e), SetterExpect::Ok) => {
                return (None, Some(Fail::tagged("setter-refused-valid", call_class(call), format!("call #{i} {call:?} returned Err({e}); the model says it is valid"))));
            },
            _ => {},
        }
    }
    let Some(b) = run.builder else { return (None, None) };
    let built = obs::build(b);
    let want = expected_build(&m, typed);
    match (&built, &want) {
        (Out::Panic(p), _) => return (None, Some(Fail::tagged("build-panicked", p.clone(), format!("build() panicked: {p}")))),
        (Out::Ok(p), Err(errs)) => {
            return (
                None,
                Some(Fail::tagged("build-accepted-invalid", errs.join("|"), format!("build() succeeded with {:?} although the final state {m:?} must be refused ({})", Snap::of(p), errs.join(" or ")))),
            );
        },
        (Out::Err(e), Ok(_)) => {
            return (None, Some(Fail::tagged("build-refused-valid", e.clone(), format!("build() returned Err({e}) although the final state {m:?} is valid"))));
        },
        (Out::Err(_), Err(_)) => {
            // refused, as it must be (the statement fixes success / failure, not the variant)
            j.refused = true;
        },
        (Out::Ok(p), Ok(w)) => {
            j.ok = true;
            let snap = Snap::of(p);
            let field = |name: &str, got: String, wantv: String| -> Option<Fail> {
                if got != wantv {
                    Some(Fail::tagged("accessor-mismatch", name.to_string(), format!("after {:?} the {name} is {got} but was last set to {wantv}", h.calls)))
                } else {
                    None
                }
            };
            let checks = [
                field("type", snap.ty.clone(), w.ty.clone()),
                field("namespace", format!("{:?}", snap.ns.as_deref().map(sig_ns).unwrap_or_default()), format!("{:?}", w.ns_segs)),
                field("name", format!("{:?}", snap.name), format!("{:?}", w.name)),
                field("version", format!("{:?}", snap.ver), format!("{:?}", w.ver)),
                field("qualifiers", format!("{:?}", snap.quals), format!("{:?}", w.quals)),
                field("subpath", format!("{:?}", snap.sub.as_deref().map(sig_sub).unwrap_or_default()), format!("{:?}", w.sub_segs)),
            ];
            if let Some(f) = checks.into_iter().flatten().next() {
                return (None, Some(f));
            }
            // serialisation loses nothing
            let canon = match obs::show(p) {
                Out::Ok(c) => c,
                o => return (None, Some(Fail::new("format-panicked", o.kind()))),
            };
            match obs::parse::<T>(&canon) {
                Out::Ok(q) => {
                    j.reparsed = true;
                    let qs = Snap::of(&q);
                    let back = [
                        ("type", qs.ty.clone() == w.ty),
                        ("namespace", qs.ns.as_deref().map(sig_ns).unwrap_or_default() == w.ns_segs),
                        ("name", qs.name == w.name),
                        ("version", qs.ver == w.ver),
                        ("qualifiers", qs.quals == w.quals),
                        ("subpath", qs.sub.as_deref().map(sig_sub).unwrap_or_default() == w.sub_segs),
                    ];
                    if let Some((name, _)) = back.iter().find(|(_, ok)| !ok) {
                        return (
                            None,
                            Some(Fail::tagged("reparse-field-differs", name.to_string(), format!("built {snap:?} prints as {canon:?}, which parses back as {qs:?}: {name} was lost, merged or reinterpreted"))),
                        );
                    }
                },
                o => {
                    return (
                        None,
                        Some(Fail::tagged("reparse-rejected", o.kind(), format!("built {snap:?} prints as {canon:?}, which the parser answers with {}", o.kind()))),
                    );
                },
            }
            // which separator characters made the round trip inside a field?
            let mut all = String::new();
            all.push_str(&w.name);
            all.push_str(&w.ns_segs.concat());
            all.push_str(w.ver.as_deref().unwrap_or(""));
            for (_, v) in &w.quals {
                all.push_str(v);
            }
            all.push_str(&w.sub_segs.concat());
            for (c, n) in [('/', "/"), ('@', "@"), ('?', "?"), ('#', "#"), ('&', "&"), ('=', "="), ('%', "%"), ('+', "+"), (' ', "space")] {
                if all.contains(c) {
                    j.fields.push(n.to_string());
                }
            }
        },
    }
    // calls on different fields commute
    if commute {
        let base = outcome(h, mk);
        for i in 0..h.calls.len().saturating_sub(1) {
            if h.calls[i] == h.calls[i + 1] || !h.calls[i].commutes_with(&h.calls[i + 1]) {
                continue;
            }
            let mut calls = h.calls.clone();
            calls.swap(i, i + 1);
            let hs = Hist { ty: h.ty.clone(), name: h.name.clone(), calls };
            // the swapped history borrows from a local, so run it with owned type values
            let swapped = outcome_owned::<T>(&hs, typed);
            j.commuted += 1;
            if swapped != base.as_ref().map(owned_out) {
                return (
                    None,
                    Some(Fail::tagged(
                        "not-commutative",
                        format!("{}/{}", call_class(&h.calls[i]), call_class(&h.calls[i + 1])),
                        format!("swapping calls #{i} {:?} and #{} {:?} (different fields) changes the result from {:?} to {:?}", h.calls[i], i + 1, h.calls[i + 1], base, swapped),
                    )),
                );
            }
        }
    }
    (Some(j), None)
}

fn owned_out(o: &Out<(Snap, String)>) -> Out<(Snap, String)> {
    o.clone()
}

/// Same as `outcome`, but always with an owning type parameter of the same family.
fn outcome_owned<T>(h: &Hist, typed: bool) -> Option<Out<(Snap, String)>> {
    if typed {
        outcome::<PackageType>(h, &exec::mk_typed)
    } else {
        outcome::<String>(h, &exec::mk_string)
    }
}

fn call_class(c: &Call) -> String {
    let s = format!("{c:?}");
    s.split('(').next().unwrap_or("").to_string()
}

pub fn judge_dyn(tp: &str, h: &Hist, commute: bool) -> (Option<Judged>, Option<Fail>) {
    match tp {
        "String" => judge::<String>(h, false, &exec::mk_string, commute),
        "PackageType" => judge::<PackageType>(h, true, &exec::mk_typed, commute),
        _ => (None, None),
    }
}

fn case(ctx: &mut Ctx, tp: &'static str, h: &Hist, commute: bool) {
    ctx.st.evaluations += 1;
    ctx.st.count(if tp == "String" { "histories:String" } else { "histories:PackageType" });
    let (j, f) = judge_dyn(tp, h, commute);
    if let Some(j) = j {
        if j.ok {
            ctx.st.count("build-ok");
        }
        if j.refused {
            ctx.st.count("build-refused");
        }
        if j.reparsed {
            ctx.st.count("reparse-checked");
        }
        ctx.st.add("setter-refused", j.setter_refused as u64);
        ctx.st.add("commutation-pairs-checked", j.commuted as u64);
        for c in &j.fields {
            match c.as_str() {
                "/" => ctx.st.count("roundtrip-field-with:/"),
                "@" => ctx.st.count("roundtrip-field-with:@"),
                "?" => ctx.st.count("roundtrip-field-with:?"),
                "#" => ctx.st.count("roundtrip-field-with:#"),
                "&" => ctx.st.count("roundtrip-field-with:&"),
                "=" => ctx.st.count("roundtrip-field-with:="),
                "%" => ctx.st.count("roundtrip-field-with:%"),
                "+" => ctx.st.count("roundtrip-field-with:+"),
                _ => ctx.st.count("roundtrip-field-with:space"),
            }
        }
        if (j.ok && !h.calls.is_empty()) || j.refused {
            ctx.st.nontrivial(fnv(format!("{tp}{h:?}").as_bytes()));
        }
        if j.ok && h.calls.len() >= 2 {
            ctx.st.sample(|| json!({"type_parameter": tp, "history": h, "result": "built; accessors = last values set; string form parses back to the same fields"}));
        }
    }
    if let Some(f) = f {
        let (kind, tag) = (f.kind.clone(), f.tag.clone());
        let calls = shrink_vec(&h.calls, &mut |cs| {
            let hh = Hist { ty: h.ty.clone(), name: h.name.clone(), calls: cs.to_vec() };
            judge_dyn(tp, &hh, commute).1.map_or(false, |g| g.kind == kind && g.tag == tag)
        });
        let hh = Hist { ty: h.ty.clone(), name: h.name.clone(), calls };
        let g = judge_dyn(tp, &hh, commute).1.unwrap_or(f);
        ctx.st.violation("C09.builder", g.signature("C09.builder", &format!("{hh:?}")), g.detail, json!({"type_parameter": tp, "history": hh, "commute": commute}));
    }
}

pub fn run(ctx: &mut Ctx) {
    // exhaustive part: all sequences of <= 2 calls over the universe; thorough adds all
    // 3-call sequences over a reduced universe
    for (tp, typed) in [("String", false), ("PackageType", true)] {
        let calls = hist::universe_calls(typed);
        let inits: Vec<(String, String)> = if typed {
            crate::model::KNOWN_TYPES.iter().map(|t| (t.to_string(), "n".to_string())).collect()
        } else {
            vec![("t".into(), "n".into()), ("T.+-1".into(), "".into())]
        };
        let mut idx = 0u64;
        let mut total = 0u64;
        for (ty, name) in &inits {
            for a in 0..=calls.len() {
                for b in 0..=calls.len() {
                    // index `len` means "no call" so that 0- and 1-call sequences are included once
                    if a == calls.len() && b != calls.len() {
                        continue;
                    }
                    idx += 1;
                    total += 1;
                    if !ctx.mine(idx) {
                        continue;
                    }
                    let mut cs = Vec::new();
                    if a < calls.len() {
                        cs.push(calls[a].clone());
                    }
                    if b < calls.len() {
                        cs.push(calls[b].clone());
                    }
                    let h = Hist { ty: ty.clone(), name: name.clone(), calls: cs };
                    case(ctx, tp, &h, true);
                }
            }
        }
        if ctx.worker == 0 {
            ctx.st.exhaustive.push(json!({"name": format!("all builder histories of <= 2 calls over the universe ({} call forms) x {} initial (type, name) pairs, {tp}", calls.len(), inits.len()), "size": total, "completed": true}));
        }
        if !ctx.quick() {
            let reduced: Vec<Call> = calls.iter().enumerate().filter(|(i, _)| i % 4 == 0).map(|(_, c)| c.clone()).collect();
            let mut total3 = 0u64;
            for (ty, name) in inits.iter().take(if typed { 7 } else { 1 }) {
                for a in &reduced {
                    for b in &reduced {
                        for c in &reduced {
                            idx += 1;
                            total3 += 1;
                            if !ctx.mine(idx) {
                                continue;
                            }
                            let h = Hist { ty: ty.clone(), name: name.clone(), calls: vec![a.clone(), b.clone(), c.clone()] };
                            case(ctx, tp, &h, false);
                        }
                    }
                }
            }
            if ctx.worker == 0 {
                ctx.st.exhaustive.push(json!({"name": format!("all 3-call histories over a reduced universe ({} call forms), {tp}", reduced.len()), "size": total3, "completed": true}));
            }
        }
    }
    // every scalar of the BMP blocks with case mappings (U+0080..U+2FFF, U+A640..U+ABFF,
    // U+FB00..U+FFFF) and of the cased supplementary blocks, next to a non-ASCII capital, as
    // nuget and pypi name: what was set is what is reported, under the type's rule
    let mut n = 0u64;
    for cp in (0x80u32..0x3000).chain(0xA640..0xAC00).chain(0xFB00..0x1_0000).chain(0x1_0400..0x1_0500).chain(0x1_0C80..0x1_0D00).chain(0x1_1880..0x1_18E0).chain(0x1_6E40..0x1_6EA0).chain(0x1_E900..0x1_E960) {
        if !ctx.mine(cp as u64) {
            continue;
        }
        let Some(c) = char::from_u32(cp) else { continue };
        for ty in ["nuget", "pypi"] {
            for name in [format!("É{c}"), format!("a_{c}É")] {
                let h = Hist { ty: ty.into(), name, calls: vec![] };
                case(ctx, "PackageType", &h, false);
                n += 1;
            }
        }
    }
    ctx.st.add("exhaustive:cased-block-scalar-next-to-capital", n);
    // rule-sensitive names for the enum (pypi / nuget / maven), extended by random calls
    let mut r = ctx.rng("c09.names");
    for _ in 0..ctx.share(100_000, 3_000_000) {
        let mut h = super::values::name_hist(&mut r);
        for _ in 0..r.below(3) {
            h.calls.push(hist::rand_call(&mut r, true));
        }
        case(ctx, "PackageType", &h, true);
    }
    // random histories with hostile strings
    let mut r = ctx.rng("c09.g4");
    for _ in 0..ctx.share(250_000, 8_000_000) {
        let h = hist::rand_hist(&mut r, false);
        case(ctx, "String", &h, true);
        let h = hist::rand_hist(&mut r, true);
        case(ctx, "PackageType", &h, true);
    }
    // observe / take apart / change one thing / put together
    let mut r = ctx.rng("c09.stale");
    for _ in 0..ctx.share(60_000, 1_500_000) {
        let h = hist::stale_hist(&mut r, false);
        case(ctx, "String", &h, false);
        let h = hist::stale_hist(&mut r, true);
        case(ctx, "PackageType", &h, false);
    }
}

pub fn replay(_monitor: &str, case: &Value) -> Result<Option<Fail>, String> {
    let h: Hist = serde_json::from_value(case.get("history").cloned().unwrap_or(Value::Null)).map_err(|e| e.to_string())?;
    let commute = case.get("commute").and_then(|v| v.as_bool()).unwrap_or(true);
    Ok(judge_dyn(str_field(case, "type_parameter")?, &h, commute).1)
}
