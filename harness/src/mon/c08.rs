//! C08 — stub (monitor not written yet)
use serde_json::Value;

use super::Fail;
use crate::obs::{Ctx, Tier};

pub const RULE: &str = "";

pub fn requirements(_tier: Tier) -> Vec<(&'static str, u64)> {
    vec![("not-implemented", 1)]
}

pub fn run(_ctx: &mut Ctx) {}

pub fn replay(_monitor: &str, _case: &Value) -> Result<Option<Fail>, String> {
    Err("not implemented".into())
}
