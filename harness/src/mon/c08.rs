//! C08 — package-type rules: pypi and nuget names, maven namespace, others untouched; the
//! typed PURL agrees with the type-agnostic one on everything but the name.
//!
//! Oracles: R4 (name rules), and two differential twins: parser vs builder, typed vs untyped.

use purl::{PackageType, Purl};
use serde_json::{json, Value};

use super::{str_field, Fail};
use crate::exec::{mk_typed, ALL_TYPES};
use crate::gen;
use crate::model::{self, typed_name};
use crate::obs::{self, Ctx, Out, Snap, Tier};
use crate::rng::fnv;
use crate::shrink::shrink_str;
use crate::spell;

pub const RULE: &str = "a case is (type, name) run through the parser path and the builder path, or one string parsed typed and untyped; non-trivial = the type's rule changes the name, or maven without namespace, or a typed/untyped pair that both accept with >= 1 optional component; distinct by hash of (type, name) resp. the string";

pub fn requirements(tier: Tier) -> Vec<(&'static str, u64)> {
    let short = if tier == Tier::Quick { 37_448 } else { 299_592 };
    vec![
        ("exhaustive:scalar-names-x-type", 7 * 1_112_064),
        ("exhaustive:short-names-x-type", 7 * short),
        ("exhaustive:scalar-in-context-x-rule", 10 * 1_112_064),
        ("rule-changed-name:pypi", 1_000),
        ("rule-changed-name:nuget", 1_000),
        ("set:titlecase-exercised", 31),
        ("maven-without-namespace-refused", 100),
        ("twin:both-accept", 10_000),
        ("twin:unknown-type-refused", 1_000),
    ]
}

fn enc_all(n: &str) -> String {
    let mut o = String::new();
    for b in n.bytes() {
        if b.is_ascii_alphanumeric() {
            o.push(b as char);
        } else {
            o.push_str(&format!("%{b:02X}"));
        }
    }
    o
}

fn type_name(t: PackageType) -> &'static str {
    // by variant, not via the library's name()
    match t {
        PackageType::Cargo => "cargo",
        PackageType::Gem => "gem",
        PackageType::Golang => "golang",
        PackageType::Maven => "maven",
        PackageType::Npm => "npm",
        PackageType::NuGet => "nuget",
        PackageType::PyPI => "pypi",
        _ => "?",
    }
}

/// Name rule through both entry points. `with_ns`: give the PURL a namespace segment `g`.
pub fn judge_name(ty: &str, n: &str, ns_mode: u8) -> Option<Fail> {
    let t = mk_typed(ty)?;
    let with_ns = ns_mode == 1;
    let s = match ns_mode {
        1 => format!("pkg:{ty}/g/{}", enc_all(n)),
        2 | 4 | 5 => format!("pkg:{ty}///{}", enc_all(n)),
        3 => format!("pkg:{ty}//{}", enc_all(n)),
        _ => format!("pkg:{ty}/{}", enc_all(n)),
    };
    let parsed = obs::parse::<PackageType>(&s).map(|p| Snap::of(&p));
    let b = Purl::builder(t, n);
    let b = match ns_mode {
        1 => b.with_namespace("g"),
        2 => b.with_namespace("//"),
        3 => b.with_namespace("/"),
        4 => b.with_namespace("///"),
        5 => b.with_namespace("/////"),
        _ => b,
    };
    let built = obs::build(b).map(|p| Snap::of(&p));
    let want_name = typed_name(ty, n);
    let expect_refused = ty == "maven" && !with_ns;
    for (path, out) in [("parser", &parsed), ("builder", &built)] {
        match out {
            Out::Ok(snap) => {
                if expect_refused {
                    return Some(Fail::tagged("maven-accepted-without-namespace", path, format!("{path} path accepted maven name {n:?} without a namespace (namespace mode {ns_mode}: 0 absent, 2 \"//\", 3 \"/\", 4 \"///\", 5 \"/////\")")));
                }
                if snap.name != want_name {
                    let d = snap.name.chars().zip(want_name.chars()).find(|(a, b)| a != b).map(|(a, b)| format!("got U+{:04X} want U+{:04X}", a as u32, b as u32)).unwrap_or_else(|| "length".into());
                    let class = if snap.name == n { "name-left-unchanged" } else { "name-changed-wrongly" };
                    return Some(Fail::tagged(
                        "name-rule",
                        format!("{ty}:{path}:{class}"),
                        format!("{ty} name {n:?} through the {path} path ({}) came out as {:?}; the rule gives {want_name:?} ({d})", if path == "parser" { s.clone() } else { "Purl::builder".into() }, snap.name),
                    ));
                }
                let want_ns = if with_ns { Some("g".to_string()) } else { None };
                if snap.ns != want_ns || snap.ver.is_some() || !snap.quals.is_empty() || snap.sub.is_some() || snap.ty != ty {
                    return Some(Fail::tagged("other-component-touched", format!("{ty}:{path}"), format!("{path} path for {ty} name {n:?}: unexpected components {snap:?}")));
                }
            },
            Out::Err(e) => {
                let _ = e;
                let ok = expect_refused; // refused is what the statement asks for; C05 owns the variant
                if !ok {
                    return Some(Fail::tagged("refused", format!("{ty}:{path}:{e}"), format!("{path} path refused {ty} name {n:?} (namespace mode {ns_mode}) with {e}")));
                }
            },
            Out::Panic(m) => return Some(Fail::tagged("panicked", format!("{ty}:{path}"), format!("{path} path for {ty} name {n:?} panicked: {m}"))),
        }
    }
    // `Purl::new` is the builder without further calls
    if ns_mode == 0 {
        let direct = obs::guard_res("Purl::new", || Purl::new(t, n)).map(|p| Snap::of(&p));
        if direct != built {
            return Some(Fail::tagged("new-differs-from-builder", ty, format!("Purl::new({ty}, {n:?}) gives {direct:?}, the builder gives {built:?}")));
        }
    }
    // the rule that applies is the rule of the type the PURL ends up with: a builder started
    // (in either documented way) for another type and re-targeted before build() gives the same
    if ns_mode <= 1 {
        for t0 in [PackageType::PyPI, PackageType::NuGet, PackageType::Cargo] {
            if t0 == t {
                continue;
            }
            for start in 0..2 {
                let b = if start == 0 { Purl::builder(t0, n) } else { purl::GenericPurlBuilder::new(t0, n) };
                let b = if with_ns { b.with_namespace("g") } else { b };
                let switched = obs::build(b.with_package_type(t)).map(|p| Snap::of(&p));
                if switched != built {
                    return Some(Fail::tagged(
                        "retargeted-builder-differs",
                        format!("{}->{ty}", type_name(t0)),
                        format!("a builder started for {} with name {n:?} and re-targeted to {ty} gives {switched:?}; a {ty} builder gives {built:?}", type_name(t0)),
                    ));
                }
            }
        }
    }
    if parsed != built {
        return Some(Fail::tagged("paths-disagree", ty, format!("parser and builder disagree for {ty} name {n:?}: {parsed:?} vs {built:?}")));
    }
    None
}

fn name_case(ctx: &mut Ctx, ty: &'static str, n: &str, counter: &'static str) {
    ctx.st.evaluations += 2;
    ctx.st.count(counter);
    let changed = typed_name(ty, n) != n;
    if changed {
        match ty {
            "pypi" => ctx.st.count("rule-changed-name:pypi"),
            "nuget" => ctx.st.count("rule-changed-name:nuget"),
            _ => {},
        }
        ctx.st.nontrivial(fnv(format!("{ty}\u{0}{n}").as_bytes()));
        if n.chars().count() >= 3 {
            ctx.st.sample(|| json!({"type": ty, "name": n, "rule_output": typed_name(ty, n), "checked": "parser path and builder path both report the rule output"}));
        }
        if ty == "nuget" {
            for c in n.chars() {
                if gen::TITLECASE.contains(&c) {
                    ctx.st.set_insert("titlecase-exercised", format!("U+{:04X}", c as u32));
                }
            }
        }
    }
    let mut wns: u8 = if ty == "maven" { 1 } else { 0 };
    let mut fail = judge_name(ty, n, wns);
    if ty == "maven" {
        // maven without a namespace: absent, or spelled with slashes only — both entry points must refuse
        for mode in [0u8, 2, 3, 4, 5] {
            if fail.is_some() {
                break;
            }
            ctx.st.evaluations += 2;
            wns = mode;
            fail = judge_name(ty, n, mode);
            if fail.is_none() {
                ctx.st.count("maven-without-namespace-refused");
            }
        }
    }
    if let Some(f) = fail {
        let (kind, tag) = (f.kind.clone(), f.tag.clone());
        let min = shrink_str(n, &mut |c| !c.is_empty() && judge_name(ty, c, wns).map_or(false, |g| g.kind == kind && g.tag == tag));
        let g = judge_name(ty, &min, wns).unwrap_or(f);
        ctx.st.violation("C08.name", g.signature("C08.name", &min), g.detail, json!({"kind": "name", "type": ty, "name": min, "namespace_mode": wns}));
    }
}

/// Typed vs untyped parse of the same string.
pub fn judge_twin(s: &str) -> (Option<&'static str>, Option<Fail>) {
    let g = obs::parse::<String>(s).map(|p| Snap::of(&p));
    let t = obs::parse::<PackageType>(s).map(|p| Snap::of(&p));
    if let Out::Panic(m) = &g {
        return (None, Some(Fail::new("panicked", format!("GenericPurl::<String>::from_str({s:?}): {m}"))));
    }
    if let Out::Panic(m) = &t {
        return (None, Some(Fail::new("panicked", format!("Purl::from_str({s:?}): {m}"))));
    }
    match (&g, &t) {
        (Out::Ok(gs), Out::Ok(ts)) => {
            if !model::known_type(&gs.ty) {
                return (None, Some(Fail::tagged("unknown-type-accepted", gs.ty.clone(), format!("typed PURL accepted {s:?} whose type {:?} is not one of the seven", gs.ty))));
            }
            if gs.ty != ts.ty || gs.ns != ts.ns || gs.ver != ts.ver || gs.quals != ts.quals || gs.sub != ts.sub {
                return (None, Some(Fail::tagged("twin-differs", ts.diff(gs).unwrap_or("?"), format!("for {s:?} the typed PURL reports {ts:?}, the type-agnostic one {gs:?}"))));
            }
            let want = typed_name(&gs.ty, &gs.name);
            if ts.name != want {
                return (None, Some(Fail::tagged("name-rule", format!("{}:twin", gs.ty), format!("for {s:?} the typed PURL reports name {:?}; the {} rule applied to {:?} gives {want:?}", ts.name, gs.ty, gs.name))));
            }
            if gs.ty == "maven" && gs.ns.is_none() {
                return (None, Some(Fail::new("maven-accepted-without-namespace", format!("typed PURL accepted {s:?}"))));
            }
            (Some("twin:both-accept"), None)
        },
        (Out::Ok(gs), Out::Err(e)) => {
            if !model::known_type(&gs.ty) {
                if e == "UnsupportedType" {
                    (Some("twin:unknown-type-refused"), None)
                } else {
                    (None, Some(Fail::tagged("unknown-type-wrong-error", e.clone(), format!("{s:?}: type {:?} unknown, typed PURL answered {e} instead of UnsupportedType", gs.ty))))
                }
            } else if gs.ty == "maven" && gs.ns.is_none() {
                if e == "MissingRequiredField(Namespace)" {
                    (Some("twin:maven-no-namespace-refused"), None)
                } else {
                    (None, Some(Fail::tagged("maven-wrong-error", e.clone(), format!("{s:?}: typed PURL answered {e}"))))
                }
            } else {
                (None, Some(Fail::tagged("typed-refused", e.clone(), format!("{s:?} is accepted by the type-agnostic PURL with known type {:?} but refused by the typed one with {e}", gs.ty))))
            }
        },
        (Out::Err(e), Out::Ok(ts)) => {
            (None, Some(Fail::tagged("typed-accepts-what-generic-refuses", e.clone(), format!("{s:?}: type-agnostic PURL answers {e}, typed PURL accepts as {ts:?}"))))
        },
        (Out::Err(_), Out::Err(_)) => (Some("twin:both-refuse"), None),
        _ => unreachable!(),
    }
}

fn twin_case(ctx: &mut Ctx, s: &str) {
    ctx.st.evaluations += 1;
    let (c, f) = judge_twin(s);
    if let Some(c) = c {
        ctx.st.count(c);
        if c == "twin:both-accept" && (s.contains('@') || s.contains('?') || s.contains('#')) {
            ctx.st.nontrivial(fnv(s.as_bytes()));
        }
    }
    if let Some(f) = f {
        let kind = f.kind.clone();
        let min = shrink_str(s, &mut |c| judge_twin(c).1.map_or(false, |g| g.kind == kind));
        let g = judge_twin(&min).1.unwrap_or(f);
        ctx.st.violation("C08.twin", g.signature("C08.twin", &min), g.detail, json!({"kind": "twin", "input": min}));
    }
}

const SHORT_ALPHABET: [char; 8] = ['a', 'A', '1', '-', '_', '.', 'Æ', 'ǅ'];

pub fn run(ctx: &mut Ctx) {
    let types: Vec<&'static str> = ALL_TYPES.iter().map(|t| type_name(*t)).collect();
    // G7a: every Unicode scalar value as a one-character name
    let mut idx = 0u64;
    for cp in 0u32..=0x10FFFF {
        let Some(c) = char::from_u32(cp) else { continue };
        idx += 1;
        if !ctx.mine(idx) {
            continue;
        }
        let n = c.to_string();
        for ty in &types {
            name_case(ctx, ty, &n, "exhaustive:scalar-names-x-type");
        }
        // the same scalar where the name rules take their other paths: next to a non-ASCII
        // capital (Unicode lower-casing), next to an ASCII capital (ASCII lower-casing), and
        // next to a separator run (pypi rebuild of the name)
        for n in [format!("É{c}"), format!("{c}É"), format!("A{c}b"), format!("a_.{c}"), format!("{c}-B")] {
            for ty in ["nuget", "pypi"] {
                name_case(ctx, ty, &n, "exhaustive:scalar-in-context-x-rule");
            }
        }
    }
    // G7b: every string up to length L over the 8-letter alphabet
    let maxlen = if ctx.quick() { 5 } else { 6 };
    let mut idx = 0u64;
    for len in 1..=maxlen {
        let total = 8u64.pow(len as u32);
        for j in 0..total {
            idx += 1;
            if !ctx.mine(idx) {
                continue;
            }
            let mut n = String::new();
            let mut rem = j;
            for _ in 0..len {
                n.push(SHORT_ALPHABET[(rem % 8) as usize]);
                rem /= 8;
            }
            for ty in &types {
                name_case(ctx, ty, &n, "exhaustive:short-names-x-type");
            }
        }
    }
    if ctx.worker == 0 {
        ctx.st.exhaustive.push(json!({"name": "every Unicode scalar value as a one-character name x 7 types x {parser, builder}", "size": 7 * 1_112_064u64, "completed": true}));
        ctx.st.exhaustive.push(json!({"name": format!("every name of length 1..={maxlen} over {{a, A, 1, -, _, ., Æ, ǅ}} x 7 types x {{parser, builder}}"), "size": 7 * idx, "completed": true}));
    }
    // random hostile names
    let mut r = ctx.rng("c08.names");
    for _ in 0..ctx.share(100_000, 3_000_000) {
        let n = gen::mixed_string(&mut r, 1, 24, 60);
        let ty = *r.pick(&types);
        name_case(ctx, ty, &n, "random-names");
    }
    // names over the rule-sensitive alphabet (letters whose lower-case form changes length, sigma, separators)
    let mut r = ctx.rng("c08.rule-names");
    for _ in 0..ctx.share(150_000, 4_000_000) {
        let h = super::values::name_hist(&mut r);
        if let Some(ty) = types.iter().find(|t| **t == h.ty) {
            name_case(ctx, ty, &h.name, "rule-sensitive-names");
        }
    }
    // typed vs untyped: G1 in the typed contexts (complete), legal spellings, mutated corpus
    let (w, nw, quick) = (ctx.worker, ctx.nworkers, ctx.quick());
    let mut f = |_i: u64, s: &str| twin_case(ctx, s);
    let ctxs = ["pkg:npm/", "pkg:maven/g/", "pkg:maven/", "pkg:PyPi/", "pkg:nuget/", "pkg:"];
    let a = gen::for_each_lang(&ctxs, gen::SIGMA_FULL, if quick { 3 } else { 4 }, w, nw, 0, &mut f);
    let b = gen::for_each_lang(&ctxs, gen::SIGMA_STRUCT, if quick { 4 } else { 5 }, w, nw, a, &mut f);
    if ctx.worker == 0 {
        ctx.st.exhaustive.push(json!({"name": "token language in 6 typed contexts, typed vs untyped parse", "size": a + b, "completed": true}));
    }
    let mut r = ctx.rng("c08.g2");
    for _ in 0..ctx.share(150_000, 4_000_000) {
        let known = !r.chance(1, 4);
        let t = spell::gen_tuple(&mut r, known);
        let mask = spell::random_mask(&mut r);
        let s = spell::spell(&mut r, &t, mask).assemble();
        twin_case(ctx, &s);
    }
    let (corpus, _) = gen::load_corpus();
    let mut r = ctx.rng("c08.g10");
    for _ in 0..ctx.share(150_000, 4_000_000) {
        let s = gen::mutate(&mut r, &corpus);
        twin_case(ctx, &s);
    }
    // names that look like their ecosystem's combined form, without a namespace (a rule that
    // "helpfully" moves a scope out of the name would show here)
    if ctx.worker == 0 {
        for ty in &types {
            for n in ["@scope/name", "@scope//name", "@/x", "a/b", "a/b/c", "g:a", "g:a:b", ":a", "a:", "@a", "/"] {
                name_case(ctx, ty, n, "combined-looking-names");
                let enc = enc_all(n);
                twin_case(ctx, &format!("pkg:{ty}/{enc}"));
                twin_case(ctx, &format!("pkg:{ty}/ns/{enc}@1"));
            }
        }
    }
    // all other spec type names: refused by the typed PURL, accepted by the untyped one
    if ctx.worker == 0 {
        for t in crate::mon::c15::SPEC_OTHER_TYPES {
            twin_case(ctx, &format!("pkg:{t}/ns/name@1"));
        }
    }
}

pub fn replay(_monitor: &str, case: &Value) -> Result<Option<Fail>, String> {
    match str_field(case, "kind")? {
        "name" => {
            let wns = case.get("namespace_mode").and_then(|v| v.as_u64()).unwrap_or(0) as u8;
            Ok(judge_name(str_field(case, "type")?, str_field(case, "name")?, wns))
        },
        "twin" => Ok(judge_twin(str_field(case, "input")?).1),
        o => Err(format!("unknown case kind {o}")),
    }
}
