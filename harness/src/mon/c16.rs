//! C16 — the serde form is exactly the string form.
//!
//! Differential oracle against Display / FromStr, a recording `Serializer` that must see
//! exactly one string, and a battery of non-string values that must be refused.

use std::fmt::{self, Debug, Display};
use std::str::FromStr;

use purl::{GenericPurl, PackageType, PurlShape};
use serde::de::value::{BoolDeserializer, BytesDeserializer, Error as ValueError, I64Deserializer, MapDeserializer, SeqDeserializer, StrDeserializer, U64Deserializer, UnitDeserializer};
use serde::de::DeserializeOwned;
use serde::ser::{Impossible, Serialize, Serializer};
use serde::Deserialize;
use serde_json::{json, Value};

use super::{str_field, Fail};
use crate::gen;
use crate::hist::Hist;
use crate::obs::{self, guard, Ctx, Out, Snap, Tier};
use crate::rng::fnv;
use crate::shrink::shrink_str;
use crate::spell;

pub const RULE: &str = "a case is one input string for one instantiation, taken through Deserialize (JSON, plain and \\u-escaped) next to FromStr, and - when accepted - through Serialize next to Display; non-trivial = every accepted string plus every refused one whose refusal is compared; distinct by hash of (instantiation, string)";

pub fn requirements(tier: Tier) -> Vec<(&'static str, u64)> {
    let q = tier == Tier::Quick;
    vec![
        ("deserialised:accepted", if q { 100_000 } else { 2_000_000 }),
        ("deserialised:refused-like-from_str", 100_000),
        ("serialised", 100_000),
        ("recording-serializer-runs", 100_000),
        ("json-unicode-escaped-inputs", 10_000),
        ("non-string-values-refused", 400),
        ("typed-instantiation", 50_000),
        ("long-strings", 25),
        ("built-values-round-tripped", 10_000),
    ]
}

// --- a Serializer that records what it is given --------------------------------------------

#[derive(Debug)]
pub struct RecErr(String);

impl Display for RecErr {
    fn fmt(&self, f: &mut fmt::Formatter<'_>) -> fmt::Result {
        f.write_str(&self.0)
    }
}

impl std::error::Error for RecErr {}

impl serde::ser::Error for RecErr {
    fn custom<T: Display>(msg: T) -> Self {
        RecErr(msg.to_string())
    }
}

/// Accepts exactly `serialize_str` (and `collect_str`, which serde defines through it);
/// everything else is reported as "serialised as <kind>".
pub struct Recorder;

macro_rules! refuse {
    ($($name:ident($($arg:ty),*) ;)*) => {
        $(fn $name(self, $(_: $arg),*) -> Result<Self::Ok, Self::Error> {
            Err(RecErr(format!("serialised through {}", stringify!($name))))
        })*
    };
}

impl Serializer for Recorder {
    type Error = RecErr;
    type Ok = String;
    type SerializeMap = Impossible<String, RecErr>;
    type SerializeSeq = Impossible<String, RecErr>;
    type SerializeStruct = Impossible<String, RecErr>;
    type SerializeStructVariant = Impossible<String, RecErr>;
    type SerializeTuple = Impossible<String, RecErr>;
    type SerializeTupleStruct = Impossible<String, RecErr>;
    type SerializeTupleVariant = Impossible<String, RecErr>;

    refuse! {
        serialize_bool(bool); serialize_i8(i8); serialize_i16(i16); serialize_i32(i32); serialize_i64(i64);
        serialize_u8(u8); serialize_u16(u16); serialize_u32(u32); serialize_u64(u64);
        serialize_f32(f32); serialize_f64(f64); serialize_char(char); serialize_bytes(&[u8]);
        serialize_none(); serialize_unit(); serialize_unit_struct(&'static str);
        serialize_unit_variant(&'static str, u32, &'static str);
    }

    fn serialize_str(self, v: &str) -> Result<String, RecErr> {
        Ok(v.to_string())
    }

    fn serialize_some<T: ?Sized + Serialize>(self, _: &T) -> Result<String, RecErr> {
        Err(RecErr("serialised through serialize_some".into()))
    }

    fn serialize_newtype_struct<T: ?Sized + Serialize>(self, _: &'static str, _: &T) -> Result<String, RecErr> {
        Err(RecErr("serialised through serialize_newtype_struct".into()))
    }

    fn serialize_newtype_variant<T: ?Sized + Serialize>(self, _: &'static str, _: u32, _: &'static str, _: &T) -> Result<String, RecErr> {
        Err(RecErr("serialised through serialize_newtype_variant".into()))
    }

    fn serialize_seq(self, _: Option<usize>) -> Result<Self::SerializeSeq, RecErr> {
        Err(RecErr("serialised as a sequence".into()))
    }

    fn serialize_tuple(self, _: usize) -> Result<Self::SerializeTuple, RecErr> {
        Err(RecErr("serialised as a tuple".into()))
    }

    fn serialize_tuple_struct(self, _: &'static str, _: usize) -> Result<Self::SerializeTupleStruct, RecErr> {
        Err(RecErr("serialised as a tuple struct".into()))
    }

    fn serialize_tuple_variant(self, _: &'static str, _: u32, _: &'static str, _: usize) -> Result<Self::SerializeTupleVariant, RecErr> {
        Err(RecErr("serialised as a tuple variant".into()))
    }

    fn serialize_map(self, _: Option<usize>) -> Result<Self::SerializeMap, RecErr> {
        Err(RecErr("serialised as a map".into()))
    }

    fn serialize_struct(self, _: &'static str, _: usize) -> Result<Self::SerializeStruct, RecErr> {
        Err(RecErr("serialised as a struct".into()))
    }

    fn serialize_struct_variant(self, _: &'static str, _: u32, _: &'static str, _: usize) -> Result<Self::SerializeStructVariant, RecErr> {
        Err(RecErr("serialised as a struct variant".into()))
    }
}

/// A sink that refuses the string it is handed (to check that a failed serialisation leaves
/// nothing behind that a later one could pick up).
pub struct Refuser;

impl Serializer for Refuser {
    type Error = RecErr;
    type Ok = String;
    type SerializeMap = Impossible<String, RecErr>;
    type SerializeSeq = Impossible<String, RecErr>;
    type SerializeStruct = Impossible<String, RecErr>;
    type SerializeStructVariant = Impossible<String, RecErr>;
    type SerializeTuple = Impossible<String, RecErr>;
    type SerializeTupleStruct = Impossible<String, RecErr>;
    type SerializeTupleVariant = Impossible<String, RecErr>;

    refuse! {
        serialize_bool(bool); serialize_i8(i8); serialize_i16(i16); serialize_i32(i32); serialize_i64(i64);
        serialize_u8(u8); serialize_u16(u16); serialize_u32(u32); serialize_u64(u64);
        serialize_f32(f32); serialize_f64(f64); serialize_char(char); serialize_bytes(&[u8]);
        serialize_none(); serialize_unit(); serialize_unit_struct(&'static str);
        serialize_unit_variant(&'static str, u32, &'static str); serialize_str(&str);
    }

    fn serialize_some<T: ?Sized + Serialize>(self, _: &T) -> Result<String, RecErr> {
        Err(RecErr("refused".into()))
    }

    fn serialize_newtype_struct<T: ?Sized + Serialize>(self, _: &'static str, _: &T) -> Result<String, RecErr> {
        Err(RecErr("refused".into()))
    }

    fn serialize_newtype_variant<T: ?Sized + Serialize>(self, _: &'static str, _: u32, _: &'static str, _: &T) -> Result<String, RecErr> {
        Err(RecErr("refused".into()))
    }

    fn serialize_seq(self, _: Option<usize>) -> Result<Self::SerializeSeq, RecErr> {
        Err(RecErr("refused".into()))
    }

    fn serialize_tuple(self, _: usize) -> Result<Self::SerializeTuple, RecErr> {
        Err(RecErr("refused".into()))
    }

    fn serialize_tuple_struct(self, _: &'static str, _: usize) -> Result<Self::SerializeTupleStruct, RecErr> {
        Err(RecErr("refused".into()))
    }

    fn serialize_tuple_variant(self, _: &'static str, _: u32, _: &'static str, _: usize) -> Result<Self::SerializeTupleVariant, RecErr> {
        Err(RecErr("refused".into()))
    }

    fn serialize_map(self, _: Option<usize>) -> Result<Self::SerializeMap, RecErr> {
        Err(RecErr("refused".into()))
    }

    fn serialize_struct(self, _: &'static str, _: usize) -> Result<Self::SerializeStruct, RecErr> {
        Err(RecErr("refused".into()))
    }

    fn serialize_struct_variant(self, _: &'static str, _: u32, _: &'static str, _: usize) -> Result<Self::SerializeStructVariant, RecErr> {
        Err(RecErr("refused".into()))
    }
}

/// A string deserializer that declares itself NOT human readable (like bincode, postcard,
/// messagepack): the result must not depend on that.
pub struct BinaryStr<'a>(pub &'a str);

impl<'de, 'a> serde::Deserializer<'de> for BinaryStr<'a> {
    type Error = ValueError;

    fn deserialize_any<V: serde::de::Visitor<'de>>(self, visitor: V) -> Result<V::Value, ValueError> {
        visitor.visit_str(self.0)
    }

    fn is_human_readable(&self) -> bool {
        false
    }

    serde::forward_to_deserialize_any! {
        bool i8 i16 i32 i64 i128 u8 u16 u32 u64 u128 f32 f64 char str string bytes byte_buf option unit
        unit_struct newtype_struct seq tuple tuple_struct map struct enum identifier ignored_any
    }
}

/// The recorder, declaring itself not human readable.
pub struct BinaryRecorder;

impl Serializer for BinaryRecorder {
    type Error = RecErr;
    type Ok = String;
    type SerializeMap = Impossible<String, RecErr>;
    type SerializeSeq = Impossible<String, RecErr>;
    type SerializeStruct = Impossible<String, RecErr>;
    type SerializeStructVariant = Impossible<String, RecErr>;
    type SerializeTuple = Impossible<String, RecErr>;
    type SerializeTupleStruct = Impossible<String, RecErr>;
    type SerializeTupleVariant = Impossible<String, RecErr>;

    refuse! {
        serialize_bool(bool); serialize_i8(i8); serialize_i16(i16); serialize_i32(i32); serialize_i64(i64);
        serialize_u8(u8); serialize_u16(u16); serialize_u32(u32); serialize_u64(u64);
        serialize_f32(f32); serialize_f64(f64); serialize_char(char); serialize_bytes(&[u8]);
        serialize_none(); serialize_unit(); serialize_unit_struct(&'static str);
        serialize_unit_variant(&'static str, u32, &'static str);
    }

    fn is_human_readable(&self) -> bool {
        false
    }

    fn serialize_str(self, v: &str) -> Result<String, RecErr> {
        Ok(v.to_string())
    }

    fn serialize_some<T: ?Sized + Serialize>(self, _: &T) -> Result<String, RecErr> {
        Err(RecErr("serialised through serialize_some".into()))
    }

    fn serialize_newtype_struct<T: ?Sized + Serialize>(self, _: &'static str, _: &T) -> Result<String, RecErr> {
        Err(RecErr("serialised through serialize_newtype_struct".into()))
    }

    fn serialize_newtype_variant<T: ?Sized + Serialize>(self, _: &'static str, _: u32, _: &'static str, _: &T) -> Result<String, RecErr> {
        Err(RecErr("serialised through serialize_newtype_variant".into()))
    }

    fn serialize_seq(self, _: Option<usize>) -> Result<Self::SerializeSeq, RecErr> {
        Err(RecErr("serialised as a sequence".into()))
    }

    fn serialize_tuple(self, _: usize) -> Result<Self::SerializeTuple, RecErr> {
        Err(RecErr("serialised as a tuple".into()))
    }

    fn serialize_tuple_struct(self, _: &'static str, _: usize) -> Result<Self::SerializeTupleStruct, RecErr> {
        Err(RecErr("serialised as a tuple struct".into()))
    }

    fn serialize_tuple_variant(self, _: &'static str, _: u32, _: &'static str, _: usize) -> Result<Self::SerializeTupleVariant, RecErr> {
        Err(RecErr("serialised as a tuple variant".into()))
    }

    fn serialize_map(self, _: Option<usize>) -> Result<Self::SerializeMap, RecErr> {
        Err(RecErr("serialised as a map".into()))
    }

    fn serialize_struct(self, _: &'static str, _: usize) -> Result<Self::SerializeStruct, RecErr> {
        Err(RecErr("serialised as a struct".into()))
    }

    fn serialize_struct_variant(self, _: &'static str, _: u32, _: &'static str, _: usize) -> Result<Self::SerializeStructVariant, RecErr> {
        Err(RecErr("serialised as a struct variant".into()))
    }
}

fn json_escaped(s: &str) -> String {
    // every character as \uXXXX (surrogate pairs for astral characters)
    let mut o = String::from("\"");
    let mut buf = [0u16; 2];
    for c in s.chars() {
        for u in c.encode_utf16(&mut buf) {
            o.push_str(&format!("\\u{:04x}", u));
        }
    }
    o.push('"');
    o
}

pub struct Seen {
    pub accepted: bool,
}

pub fn judge<T>(s: &str) -> (Seen, Option<Fail>)
where
    T: FromStr + PurlShape + PartialEq + Clone + Debug,
    <T as PurlShape>::Error: From<<T as FromStr>::Err> + Debug + Display,
    GenericPurl<T>: DeserializeOwned + Serialize,
{
    let direct = obs::parse::<T>(s);
    let plain = serde_json::to_string(s).expect("string to json");
    let mut seen = Seen { accepted: false };
    for (how, js) in [("plain JSON string", plain.clone()), ("\\u-escaped JSON string", json_escaped(s))] {
        let de = guard("serde_json::from_str", || serde_json::from_str::<GenericPurl<T>>(&js));
        match (&direct, de) {
            (_, Out::Panic(m)) => return (seen, Some(Fail::tagged("panicked", m.clone(), format!("deserialising {js}: {m}")))),
            (Out::Ok(p), Out::Ok(Ok(q))) => {
                if *p != q {
                    return (seen, Some(Fail::tagged("deserialised-differs", how, format!("{s:?} via {how}: deserialised {:?}, from_str gives {:?}", Snap::of(&q), Snap::of(p)))));
                }
            },
            (Out::Ok(_), Out::Ok(Err(e))) => return (seen, Some(Fail::tagged("deserialise-refuses-valid", how, format!("{s:?} parses, but deserialising it ({how}) fails: {e}")))),
            (Out::Err(e), Out::Ok(Ok(q))) => return (seen, Some(Fail::tagged("deserialise-accepts-invalid", how, format!("from_str({s:?}) = Err({e}) but deserialising it ({how}) gives {:?}", Snap::of(&q))))),
            (Out::Err(_), Out::Ok(Err(_))) => {},
            (Out::Panic(m), _) => return (seen, Some(Fail::tagged("panicked", m.clone(), format!("from_str({s:?}): {m}")))),
            (_, Out::Err(_)) => unreachable!(),
        }
    }
    // the three ways a format can hand over a string (transient, borrowed from the input, owned)
    {
        use serde::de::IntoDeserializer;
        let routes: [(&str, Out<Result<GenericPurl<T>, ValueError>>); 2] = [
            ("owned String", guard("Deserialize (owned string)", || GenericPurl::<T>::deserialize(IntoDeserializer::<ValueError>::into_deserializer(s.to_owned())))),
            ("borrowed str", guard("Deserialize (borrowed str)", || GenericPurl::<T>::deserialize(serde::de::value::BorrowedStrDeserializer::<ValueError>::new(s)))),
        ];
        for (how, de) in routes {
            match (&direct, de) {
                (_, Out::Panic(m)) => return (seen, Some(Fail::tagged("panicked", m.clone(), format!("deserialising {s:?} ({how}): {m}")))),
                (Out::Ok(p), Out::Ok(Ok(q))) if *p != q => return (seen, Some(Fail::tagged("deserialised-differs", how, format!("{s:?} via {how}: deserialised {:?}, from_str gives {:?}", Snap::of(&q), Snap::of(p))))),
                (Out::Ok(_), Out::Ok(Err(e))) => return (seen, Some(Fail::tagged("deserialise-refuses-valid", how, format!("{s:?} parses, but deserialising it ({how}) fails: {e}")))),
                (Out::Err(e), Out::Ok(Ok(q))) => return (seen, Some(Fail::tagged("deserialise-accepts-invalid", how, format!("from_str({s:?}) = Err({e}) but deserialising it ({how}) gives {:?}", Snap::of(&q))))),
                _ => {},
            }
        }
    }
    // a deserializer that is not human readable (binary formats) must behave the same
    match (&direct, guard("Deserialize (non-human-readable format)", || GenericPurl::<T>::deserialize(BinaryStr(s)))) {
        (_, Out::Panic(m)) => return (seen, Some(Fail::tagged("panicked", m.clone(), format!("deserialising {s:?} from a binary format: {m}")))),
        (Out::Ok(p), Out::Ok(Ok(q))) => {
            if *p != q {
                return (seen, Some(Fail::tagged("deserialised-differs", "binary format", format!("{s:?} via a non-human-readable format: deserialised {:?}, from_str gives {:?}", Snap::of(&q), Snap::of(p)))));
            }
        },
        (Out::Ok(_), Out::Ok(Err(e))) => return (seen, Some(Fail::tagged("deserialise-refuses-valid", "binary format", format!("{s:?} parses, but deserialising it from a binary format fails: {e}")))),
        (Out::Err(e), Out::Ok(Ok(q))) => return (seen, Some(Fail::tagged("deserialise-accepts-invalid", "binary format", format!("from_str({s:?}) = Err({e}) but a binary format deserialises it to {:?}", Snap::of(&q))))),
        _ => {},
    }
    let Out::Ok(p) = direct else { return (seen, None) };
    seen.accepted = true;
    // deserialising *into* an existing value (serde's `deserialize_in_place`, what containers
    // use to recycle allocations) gives the same PURL, whatever the place held before: a value
    // with the same keys and other values plus one more key, and the value itself
    {
        let mut b = p.clone().into_builder();
        for (k, v) in b.parts.qualifiers.iter_mut() {
            if k.as_str() != "checksum" {
                v.push_str("-stale");
            }
        }
        let _ = b.parts.qualifiers.insert("zzz-stale", "1");
        b.parts.version = "stale".into();
        b.parts.subpath = "stale".into();
        let mut places = vec![p.clone()];
        if let Out::Ok(old) = obs::build(b) {
            places.push(old);
        }
        for mut place in places {
            let before = Snap::of(&place);
            let r = guard("Deserialize::deserialize_in_place", || {
                let mut de = serde_json::Deserializer::from_str(&plain);
                serde::Deserialize::deserialize_in_place(&mut de, &mut place).map(|()| place)
            });
            match r {
                Out::Ok(Ok(q)) if q == p => {},
                Out::Ok(Ok(q)) => {
                    return (seen, Some(Fail::tagged("deserialised-in-place-differs", "", format!("{s:?} deserialised into a place holding {before:?} gives {:?}; from_str gives {:?}", Snap::of(&q), Snap::of(&p)))))
                },
                Out::Ok(Err(e)) => return (seen, Some(Fail::tagged("deserialise-refuses-valid", "in place", format!("{s:?} parses, but deserialising it in place fails: {e}")))),
                Out::Panic(m) => return (seen, Some(Fail::tagged("panicked", m.clone(), format!("deserialising {s:?} in place: {m}")))),
                Out::Err(_) => unreachable!(),
            }
        }
    }
    // Serialize: exactly the canonical string, as one string value
    let c = match obs::show(&p) {
        Out::Ok(c) => c,
        o => return (seen, Some(Fail::new("format-panicked", o.kind()))),
    };
    // history: a serialisation into a sink that fails, then the ones that are judged — a
    // failed attempt must not leak into the next result
    if let Out::Panic(m) = guard("Serialize::serialize(Refuser)", || p.serialize(Refuser).is_err()) {
        return (seen, Some(Fail::new("serialise-panicked", m)));
    }
    match guard("serde_json::to_string", || serde_json::to_string(&p)) {
        Out::Ok(Ok(js)) => {
            let want = serde_json::to_string(&c).expect("string to json");
            if js != want {
                return (seen, Some(Fail::tagged("serialised-form-differs", "", format!("{s:?}: serialised as {js}, the canonical string as JSON is {want}"))));
            }
            // JSON round trip
            match serde_json::from_str::<GenericPurl<T>>(&js) {
                Ok(q) if q == p => {},
                o => return (seen, Some(Fail::tagged("json-round-trip", "", format!("{s:?}: {js} deserialises to {:?}", o.map(|q| Snap::of(&q)))))),
            }
        },
        o => return (seen, Some(Fail::tagged("serialise-failed", "", format!("{s:?}: {:?}", o.map(|r| r.map_err(|e| e.to_string())))))),
    }
    match guard("Serialize::serialize(BinaryRecorder)", || p.serialize(BinaryRecorder)) {
        Out::Ok(Ok(got)) if got == c => {},
        o => return (seen, Some(Fail::tagged("serialised-string-differs", "binary format", format!("{s:?}: a non-human-readable serializer received {:?}, canonical string is {c:?}", o.map(|r| r.map_err(|e| e.0)))))),
    }
    match guard("Serialize::serialize(Recorder)", || p.serialize(Recorder)) {
        Out::Ok(Ok(got)) if got == c => {},
        Out::Ok(Ok(got)) => return (seen, Some(Fail::tagged("serialised-string-differs", "", format!("{s:?}: serializer received {got:?}, canonical string is {c:?}")))),
        Out::Ok(Err(e)) => return (seen, Some(Fail::tagged("not-serialised-as-one-string", e.0.clone(), format!("{s:?}: {}", e.0)))),
        o => return (seen, Some(Fail::new("serialise-panicked", o.kind()))),
    }
    (seen, None)
}

fn judge_dyn(inst: &str, s: &str) -> (Seen, Option<Fail>) {
    match inst {
        "String" => judge::<String>(s),
        _ => judge::<PackageType>(s),
    }
}

/// Values that are not strings must be refused.
/// A deserializer for formats that wrap values explicitly: it answers every request with
/// `visit_some(string)` (an `Option`) or `visit_newtype_struct(string)`; the payload is a
/// valid PURL string, but the value is not a string.
struct Wrapped(&'static str, bool);

impl<'de> serde::Deserializer<'de> for Wrapped {
    type Error = ValueError;

    fn deserialize_any<V: serde::de::Visitor<'de>>(self, v: V) -> Result<V::Value, ValueError> {
        let inner = StrDeserializer::<ValueError>::new(self.0);
        if self.1 {
            v.visit_some(inner)
        } else {
            v.visit_newtype_struct(inner)
        }
    }

    serde::forward_to_deserialize_any! {
        bool i8 i16 i32 i64 i128 u8 u16 u32 u64 u128 f32 f64 char str string bytes byte_buf option unit unit_struct newtype_struct seq tuple tuple_struct map struct enum identifier ignored_any
    }
}

pub fn non_string_battery<T>() -> (u64, Option<Fail>)
where
    T: FromStr + PurlShape + Debug,
    <T as PurlShape>::Error: From<<T as FromStr>::Err> + Debug + Display,
    GenericPurl<T>: DeserializeOwned,
{
    let mut n = 0;
    let jsons = [
        "null", "true", "false", "0", "1", "-1", "1.5", "1e3", "[]", "{}", "[\"pkg:t/n\"]", "{\"purl\":\"pkg:t/n\"}", "{\"pkg:t/n\":null}", "[112,107,103]",
        "{\"type\":\"t\",\"name\":\"n\"}", "[[\"pkg:t/n\"]]",
    ];
    for js in jsons {
        n += 1;
        if let Ok(p) = serde_json::from_str::<GenericPurl<T>>(js) {
            return (n, Some(Fail::tagged("non-string-accepted", js, format!("JSON value {js} was deserialised into a PURL: {:?}", Snap::of(&p)))));
        }
    }
    type D<'a, X> = Result<GenericPurl<X>, ValueError>;
    let checks: Vec<(&str, bool)> = vec![
        ("bytes", (GenericPurl::<T>::deserialize(BytesDeserializer::<ValueError>::new(b"pkg:t/n")) as D<T>).is_ok()),
        ("unit", (GenericPurl::<T>::deserialize(UnitDeserializer::<ValueError>::new()) as D<T>).is_ok()),
        ("bool", (GenericPurl::<T>::deserialize(BoolDeserializer::<ValueError>::new(true)) as D<T>).is_ok()),
        ("u64", (GenericPurl::<T>::deserialize(U64Deserializer::<ValueError>::new(7)) as D<T>).is_ok()),
        ("i64", (GenericPurl::<T>::deserialize(I64Deserializer::<ValueError>::new(-7)) as D<T>).is_ok()),
        ("seq", (GenericPurl::<T>::deserialize(SeqDeserializer::<_, ValueError>::new(vec!["pkg:t/n"].into_iter())) as D<T>).is_ok()),
        ("map", (GenericPurl::<T>::deserialize(MapDeserializer::<_, ValueError>::new(vec![("pkg:t/n", "x")].into_iter())) as D<T>).is_ok()),
        ("Some(string)", (GenericPurl::<T>::deserialize(Wrapped("pkg:npm/n", true)) as D<T>).is_ok()),
        ("newtype struct around a string", (GenericPurl::<T>::deserialize(Wrapped("pkg:npm/n", false)) as D<T>).is_ok()),
    ];
    for (what, accepted) in checks {
        n += 1;
        if accepted {
            return (n, Some(Fail::tagged("non-string-accepted", what, format!("a {what} value was deserialised into a PURL"))));
        }
    }
    // and the positive control: a str deserializer works exactly like from_str
    n += 1;
    let ok = (GenericPurl::<T>::deserialize(StrDeserializer::<ValueError>::new("pkg:npm/n")) as D<T>).is_ok();
    if !ok {
        return (n, Some(Fail::tagged("str-deserializer-refused", "", "StrDeserializer(\"pkg:npm/n\") was refused")));
    }
    (n, None)
}

fn one(ctx: &mut Ctx, inst: &'static str, s: &str) {
    ctx.st.evaluations += 1;
    ctx.st.count("json-unicode-escaped-inputs");
    if inst == "Purl" {
        ctx.st.count("typed-instantiation");
    }
    let (seen, f) = judge_dyn(inst, s);
    ctx.st.nontrivial(fnv(format!("{inst}\u{0}{s}").as_bytes()));
    if seen.accepted {
        ctx.st.count("deserialised:accepted");
        ctx.st.count("serialised");
        ctx.st.count("recording-serializer-runs");
        ctx.st.sample(|| json!({"instantiation": inst, "input": s, "serde": "Deserialize == from_str; Serialize == one string == to_string()"}));
    } else if f.is_none() {
        ctx.st.count("deserialised:refused-like-from_str");
    }
    if let Some(f) = f {
        let (kind, tag) = (f.kind.clone(), f.tag.clone());
        let min = shrink_str(s, &mut |c| judge_dyn(inst, c).1.map_or(false, |g| g.kind == kind && g.tag == tag));
        let g = judge_dyn(inst, &min).1.unwrap_or(f);
        ctx.st.violation("C16.serde", g.signature("C16.serde", &min), g.detail, json!({"kind": "string", "instantiation": inst, "input": min}));
    }
    // one accepted string in eight also with its scheme in another letter case: whatever
    // from_str says to that, every Deserialize route must say too
    if seen.accepted && s.starts_with("pkg:") && fnv(s.as_bytes()) % 8 == 0 {
        for scheme in ["PKG:", "Pkg:", "pKg:"] {
            let v = format!("{scheme}{}", &s[4..]);
            ctx.st.count("scheme-case-variants");
            if let Some(g) = judge_dyn(inst, &v).1 {
                ctx.st.violation("C16.serde", g.signature("C16.serde", &v), g.detail, json!({"kind": "string", "instantiation": inst, "input": v}));
            }
        }
    }
}

pub fn run(ctx: &mut Ctx) {
    // non-string values (per worker a few times; they are deterministic)
    for _ in 0..2 {
        for (inst, r) in [("String", non_string_battery::<String>()), ("Purl", non_string_battery::<PackageType>())] {
            ctx.st.evaluations += r.0;
            ctx.st.add("non-string-values-refused", r.0);
            if let Some(f) = r.1 {
                ctx.st.violation("C16.serde", format!("C16.serde:{}:{}", f.kind, f.tag), f.detail, json!({"kind": "battery", "instantiation": inst}));
            }
        }
    }
    let (w, n, quick) = (ctx.worker, ctx.nworkers, ctx.quick());
    {
        let mut f = |_i: u64, s: &str| {
            one(ctx, "String", s);
            one(ctx, "Purl", s);
        };
        let (total, name) = gen::for_each_g1_reduced(quick, w, n, &mut f);
        if ctx.worker == 0 {
            ctx.st.exhaustive.push(json!({"name": format!("{name}: Deserialize vs from_str, Serialize vs Display"), "size": total, "completed": true, "instantiations": 2}));
        }
    }
    let mut r = ctx.rng("c16.g2");
    for _ in 0..ctx.share(60_000, 2_000_000) {
        let known = r.coin();
        let t = spell::gen_tuple(&mut r, known);
        let mask = spell::random_mask(&mut r);
        let sp = spell::spell(&mut r, &t, mask);
        let s = sp.assemble();
        one(ctx, "String", &s);
        if known {
            one(ctx, "Purl", &s);
        }
        // a damaged variant: rejected strings matter here
        let kind = *r.pick(spell::FAULT_KINDS);
        if let Some(bad) = spell::inject(&mut r, &t, &sp, kind) {
            one(ctx, "String", &bad);
            one(ctx, "Purl", &bad);
        }
    }
    // long strings (a length limit in one of the two entry points would show)
    for (i, (_n, s)) in gen::large_inputs(70_000).into_iter().enumerate() {
        if ctx.mine(i as u64) {
            ctx.st.count("long-strings");
            one(ctx, "String", &s);
            one(ctx, "Purl", &s);
        }
    }
    // built values
    let mut r = ctx.rng("c16.built");
    for i in 0..ctx.share(60_000, 2_000_000) {
        let typed = i % 2 == 1;
        let h = match i % 3 {
            0 => crate::hist::stale_hist(&mut r, typed),
            _ => crate::hist::rand_hist(&mut r, typed),
        };
        ctx.st.evaluations += 1;
        let (built, f) = judge_built(&h, typed);
        if built {
            ctx.st.count("built-values-round-tripped");
        }
        if let Some(f) = f {
            let (kind, tag) = (f.kind.clone(), f.tag.clone());
            let calls = crate::shrink::shrink_vec(&h.calls, &mut |cs| {
                let hh = Hist { ty: h.ty.clone(), name: h.name.clone(), calls: cs.to_vec() };
                judge_built(&hh, typed).1.map_or(false, |g| g.kind == kind && g.tag == tag)
            });
            let hh = Hist { ty: h.ty.clone(), name: h.name.clone(), calls };
            let g = judge_built(&hh, typed).1.unwrap_or(f);
            ctx.st.violation("C16.serde", format!("C16.serde:{}:{}", g.kind, g.tag), g.detail, json!({"kind": "built", "typed": typed, "history": hh}));
        }
    }
    let (corpus, _) = gen::load_corpus();
    let mut r = ctx.rng("c16.g10");
    for _ in 0..ctx.share(60_000, 2_000_000) {
        let s = gen::mutate(&mut r, &corpus);
        one(ctx, "String", &s);
        one(ctx, "Purl", &s);
    }
}

/// A PURL made by the builder survives the JSON round trip: its serde form is its canonical
/// string, and that string deserialises (to what parsing it gives, printing the same).
pub fn judge_built(h: &Hist, typed: bool) -> (bool, Option<Fail>) {
    fn go<T>(p: &GenericPurl<T>, h: &Hist) -> Option<Fail>
    where
        T: FromStr + PurlShape + PartialEq + Clone + Debug,
        <T as PurlShape>::Error: From<<T as FromStr>::Err> + Debug + Display,
        GenericPurl<T>: DeserializeOwned + Serialize,
    {
        let c = match obs::show(p) {
            Out::Ok(c) => c,
            o => return Some(Fail::new("format-panicked", o.kind())),
        };
        let js = match guard("serde_json::to_string", || serde_json::to_string(p)) {
            Out::Ok(Ok(js)) => js,
            o => return Some(Fail::tagged("serialise-failed", "built", format!("history {h:?}: {:?}", o.map(|r| r.map_err(|e| e.to_string()))))),
        };
        if js != serde_json::to_string(&c).expect("string to json") {
            return Some(Fail::tagged("serialised-form-differs", "built", format!("history {h:?}: serialised as {js}, canonical string {c:?}")));
        }
        match guard("serde_json::from_str", || serde_json::from_str::<GenericPurl<T>>(&js)) {
            // (a built PURL may hold a namespace or subpath with empty or dot pieces, which
            // its text keeps and the parser drops: "unchanged" is judged on what the parser
            // makes of the text, not on the stored pieces)
            Out::Ok(Ok(q)) => match obs::parse::<T>(&c) {
                Out::Ok(d) if d == q => None,
                o => Some(Fail::tagged("json-round-trip", "built", format!("history {h:?}: {js} deserialises to {:?}, from_str of the same text gives {}", Snap::of(&q), o.kind()))),
            },
            Out::Ok(Err(e)) => Some(Fail::tagged("json-round-trip", "built", format!("history {h:?}: the built PURL serialises as {js}, which does not deserialise: {e}"))),
            o => Some(Fail::tagged("panicked", o.kind(), format!("deserialising {js}: {}", o.kind()))),
        }
    }
    if typed {
        let Some(run) = crate::exec::run_hist::<PackageType>(h, &crate::exec::mk_typed) else { return (false, None) };
        let Some(b) = run.builder else { return (false, None) };
        match obs::build(b) {
            Out::Ok(p) => (true, go(&p, h)),
            _ => (false, None),
        }
    } else {
        let Some(run) = crate::exec::run_hist::<String>(h, &crate::exec::mk_string) else { return (false, None) };
        let Some(b) = run.builder else { return (false, None) };
        match obs::build(b) {
            Out::Ok(p) => (true, go(&p, h)),
            _ => (false, None),
        }
    }
}

pub fn replay(_monitor: &str, case: &Value) -> Result<Option<Fail>, String> {
    if case.get("kind").and_then(|v| v.as_str()) == Some("built") {
        let h: Hist = serde_json::from_value(case.get("history").cloned().unwrap_or(Value::Null)).map_err(|e| e.to_string())?;
        return Ok(judge_built(&h, case.get("typed").and_then(|v| v.as_bool()).unwrap_or(false)).1);
    }
    match str_field(case, "kind")? {
        "string" => Ok(judge_dyn(str_field(case, "instantiation")?, str_field(case, "input")?).1),
        "battery" => Ok(match str_field(case, "instantiation")? {
            "String" => non_string_battery::<String>().1,
            _ => non_string_battery::<PackageType>().1,
        }),
        o => Err(format!("unknown case kind {o}")),
    }
}
