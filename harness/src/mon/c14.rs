//! C14 — user-supplied package types: call protocol and post-hook validation.
//!
//! Online trace-specification checker over the events that the harness-side shapes append to a
//! thread-local log (`parse: ε | Conv(err) | Conv(ok) [Finish]`, `build: Finish`), plus the
//! value model `post(edit(seen))`.

use purl::GenericPurlBuilder;
use serde_json::{json, Value};

use super::{str_field, Fail};
use crate::gen;
use crate::hist::U_VALUES;
use crate::model::type_chars_ok;
use crate::obs::{self, Ctx, Out, Snap, Tier};
use crate::rng::fnv;
use crate::shapes::{self, model_edit, model_post, Cfg, Event, Shape};
use crate::shrink::shrink_str;
use crate::spell;

pub const RULE: &str = "a case is (member of the shape family, input string or builder name, entry point); non-trivial = the conversion or the hook was actually invoked; distinct by hash of (member, input, entry point)";

pub fn requirements(tier: Tier) -> Vec<(&'static str, u64)> {
    let q = tier == Tier::Quick;
    vec![
        ("members-exercised", 3_072),
        ("runs:parser", if q { 50_000 } else { 1_000_000 }),
        ("runs:builder", if q { 20_000 } else { 300_000 }),
        ("runs:new", if q { 20_000 } else { 300_000 }),
        ("inputs-with-an-injected-fault", 5_000),
        ("trace:conversion-failed", 1_000),
        ("trace:hook-failed", 1_000),
        ("trace:conversion-not-reached", 1_000),
        ("trace:hook-not-reached-after-conversion", 100),
        ("result:value-matches-post-edit-seen", 5_000),
        ("result:post-check-refused", 1_000),
        ("set:trace-words", 6),
    ]
}

/// The type substring of `s`, located independently (None when the parser may not get as far).
fn type_substring(s: &str) -> Option<&str> {
    let r = s.strip_prefix("pkg:")?.trim_start_matches('/');
    let r = match r.rfind('#') {
        Some(i) => &r[..i],
        None => r,
    };
    let path = match r.rfind('?') {
        Some(i) => &r[..i],
        None => r,
    };
    let i = path.find('/')?;
    Some(&path[..i])
}

pub struct Judged {
    pub word: String,
    pub invoked: bool,
    pub value_checked: bool,
    pub post_refused: bool,
}

/// How a PURL of the user-supplied type is obtained.
#[derive(Clone, Copy, PartialEq, Eq, Debug)]
pub enum Entry {
    /// `s.parse()`
    Parser,
    /// `GenericPurlBuilder::new(shape, name).with_namespace(..).with_version(..).build()`
    Builder,
    /// `GenericPurl::new(shape, name)`, the one-step form of `builder(..).build()`
    New,
}

pub fn judge(cfg: &Cfg, input: &str, via_parser: bool) -> (Option<Judged>, Option<Fail>) {
    judge_entry(cfg, input, if via_parser { Entry::Parser } else { Entry::Builder })
}

pub fn judge_entry(cfg: &Cfg, input: &str, entry: Entry) -> (Option<Judged>, Option<Fail>) {
    shapes::set_cfg(cfg);
    let via_parser = entry == Entry::Parser;
    let out = match entry {
        Entry::Parser => obs::parse::<Shape>(input),
        Entry::Builder => obs::build(GenericPurlBuilder::new(Shape::new(cfg, "Custom"), input).with_namespace("ns0").with_version("v0")),
        Entry::New => match obs::guard("GenericPurl::new", || purl::GenericPurl::new(Shape::new(cfg, "Custom"), input)) {
            Out::Ok(Ok(p)) => Out::Ok(p),
            Out::Ok(Err(e)) => Out::Err(format!("{e:?}")),
            Out::Err(e) => Out::Err(e),
            Out::Panic(m) => Out::Panic(m),
        },
    };
    let log = shapes::take_log();
    let word: Vec<String> = log
        .iter()
        .map(|e| match e {
            Event::Conv { ok, .. } => format!("Conv({})", if *ok { "ok" } else { "err" }),
            Event::Finish { ok, .. } => format!("Finish({})", if *ok { "ok" } else { "err" }),
        })
        .collect();
    let outcome = match &out {
        Out::Ok(_) => "Ok".to_string(),
        Out::Err(e) => format!("Err({})", e.split('(').next().unwrap_or("")),
        Out::Panic(_) => "PANIC".to_string(),
    };
    let word = format!("{}:[{}]->{}", match entry { Entry::Parser => "parse", Entry::Builder => "build", Entry::New => "new" }, word.join(","), outcome);
    if let Out::Panic(m) = &out {
        return (None, Some(Fail::tagged("panicked", m.clone(), format!("member {cfg:?}, input {input:?}: {m}"))));
    }
    let fail = |kind: &str, tag: &str, d: String| (None, Some(Fail::tagged(kind, tag.to_string(), format!("member {cfg:?}, input {input:?}, trace {word}: {d}"))));
    // --- trace specification
    let convs: Vec<(&String, bool)> = log.iter().filter_map(|e| if let Event::Conv { arg, ok } = e { Some((arg, *ok)) } else { None }).collect();
    let fins: Vec<(&shapes::PartsSnap, bool)> = log.iter().filter_map(|e| if let Event::Finish { seen, ok } = e { Some((seen, *ok)) } else { None }).collect();
    if via_parser {
        if convs.len() > 1 {
            return fail("protocol", "conversion-more-than-once", format!("conversion invoked {} times", convs.len()));
        }
        if fins.len() > 1 {
            return fail("protocol", "hook-more-than-once", format!("hook invoked {} times", fins.len()));
        }
        if !fins.is_empty() && (convs.is_empty() || !convs[0].1 || !matches!(log[0], Event::Conv { .. })) {
            return fail("protocol", "hook-before-or-without-conversion", "hook invoked although the conversion had not succeeded before".into());
        }
        if let Some((arg, _)) = convs.first() {
            if !type_chars_ok(arg) {
                return fail("protocol", "conversion-got-invalid-type", format!("conversion invoked with {arg:?}, not a syntactically valid type"));
            }
            if type_substring(input) != Some(arg.as_str()) {
                return fail("protocol", "conversion-arg-not-as-written", format!("conversion invoked with {arg:?}; the type substring of the input is {:?}", type_substring(input)));
            }
        }
    } else {
        if !convs.is_empty() {
            return fail("protocol", "conversion-on-build", "build() invoked the string conversion".into());
        }
        if fins.len() != 1 {
            return fail("protocol", "hook-not-exactly-once", format!("build() invoked the hook {} times", fins.len()));
        }
    }
    // a malformed checksum in the input is not the parser's to refuse: the generic checksum
    // check runs after the hook, which may repair or remove it. If that is the input's only
    // defect, the conversion (and, if it succeeds, the hook) must have been reached.
    if via_parser {
        let an = crate::model::analyse(input);
        if !an.unspec && an.rejects == vec!["checksum"] {
            if convs.is_empty() {
                return fail("protocol", "checksum-refused-before-conversion", "the input's only defect is its checksum, yet the conversion was never invoked".into());
            }
            if convs[0].1 && fins.is_empty() {
                return fail("protocol", "checksum-refused-before-hook", "the input's only defect is its checksum and the conversion succeeded, yet the hook was never invoked".into());
            }
        }
    }
    // --- results
    let mut j = Judged { word: word.clone(), invoked: !log.is_empty(), value_checked: false, post_refused: false };
    if let Some((_, false)) = convs.first() {
        return match &out {
            Out::Err(e) if *e == format!("Conv({})", cfg.id) => (Some(j), None),
            o => fail("error-not-returned-unchanged", "conversion", format!("conversion failed with Conv({}) but the result is {}", cfg.id, o.kind())),
        };
    }
    match fins.first() {
        Some((_, false)) => match &out {
            Out::Err(e) if *e == format!("Hook({})", cfg.id) => (Some(j), None),
            o => fail("error-not-returned-unchanged", "hook", format!("hook failed with Hook({}) but the result is {}", cfg.id, o.kind())),
        },
        Some((seen, true)) => {
            let want = model_post(&model_edit(cfg, seen));
            match (&out, want) {
                (Out::Err(e), Err(w)) => {
                    // refused by the generic checks, as it must be; the statement does not fix the
                    // variant, only that it is not one of the errors the shape itself injected
                    j.post_refused = true;
                    if e.starts_with("Conv(") || e.starts_with("Hook(") {
                        fail("post-check-wrong-error", &w, format!("the hook succeeded and the generic checks must refuse ({w}), but the error returned is the shape's own {e}"))
                    } else {
                        (Some(j), None)
                    }
                },
                (Out::Ok(p), Err(w)) => fail("post-check-skipped", &w, format!("after the hook the generic checks must answer {w}, but a PURL was produced: {:?}", Snap::of(p))),
                (Out::Err(e), Ok(_)) => fail("valid-result-refused", e, format!("hook succeeded and left valid parts, but the result is Err({e})")),
                (Out::Ok(p), Ok(w)) => {
                    j.value_checked = true;
                    let snap = Snap::of(p);
                    let opt = |s: &String| if s.is_empty() { None } else { Some(s.clone()) };
                    let want_snap = Snap { ty: snap.ty.clone(), ns: opt(&w.ns), name: w.name.clone(), ver: opt(&w.ver), quals: w.quals.clone(), sub: opt(&w.sub) };
                    if let Some(field) = want_snap.diff(&snap) {
                        return fail("value-differs-from-hook-output", field, format!("the hook saw {seen:?} and rewrote it; expected {want_snap:?}, the PURL reports {snap:?}"));
                    }
                    let want_ty = match cfg.type_mode {
                        0 => Some(fins_type(via_parser, input).to_ascii_lowercase()),
                        1 => Some(fins_type(via_parser, input).to_ascii_uppercase()),
                        _ => None,
                    };
                    if let Some(t) = want_ty {
                        if snap.ty != t {
                            return fail("type-differs", "", format!("type reported {:?}, the shape reports {t:?}", snap.ty));
                        }
                        match obs::show(p) {
                            Out::Ok(c) if c == snap.render() => {},
                            o => return fail("prints-differently", "", format!("to_string() gave {}; accessors render as {:?}", match o { Out::Ok(c) => c, o => o.kind() }, snap.render())),
                        }
                    }
                    (Some(j), None)
                },
                (Out::Panic(_), _) => unreachable!(),
            }
        },
        None => match &out {
            // neither conversion failure nor hook: the generic parser must have refused
            Out::Err(e) if e.starts_with("Parse(") => (Some(j), None),
            o => fail("result-without-hook", "", format!("no hook invocation, yet the result is {}", o.kind())),
        },
    }
}

fn fins_type(via_parser: bool, input: &str) -> String {
    if via_parser {
        type_substring(input).unwrap_or("").to_string()
    } else {
        "Custom".to_string()
    }
}

fn one(ctx: &mut Ctx, cfg: &Cfg, input: &str, via_parser: bool) {
    one_entry(ctx, cfg, input, if via_parser { Entry::Parser } else { Entry::Builder })
}

fn one_entry(ctx: &mut Ctx, cfg: &Cfg, input: &str, entry: Entry) {
    let via_parser = entry == Entry::Parser;
    ctx.st.evaluations += 1;
    ctx.st.count(match entry {
        Entry::Parser => "runs:parser",
        Entry::Builder => "runs:builder",
        Entry::New => "runs:new",
    });
    let (j, f) = judge_entry(cfg, input, entry);
    if let Some(j) = j {
        if j.invoked {
            ctx.st.nontrivial(fnv(format!("{cfg:?}{input}{via_parser}").as_bytes()));
        }
        if j.word.contains("Conv(err)") {
            ctx.st.count("trace:conversion-failed");
        }
        if j.word.contains("Finish(err)") {
            ctx.st.count("trace:hook-failed");
        }
        if via_parser && !j.word.contains("Conv") {
            ctx.st.count("trace:conversion-not-reached");
        }
        if j.word.contains("Conv(ok)") && !j.word.contains("Finish") {
            ctx.st.count("trace:hook-not-reached-after-conversion");
        }
        if j.value_checked {
            ctx.st.count("result:value-matches-post-edit-seen");
        }
        if j.post_refused {
            ctx.st.count("result:post-check-refused");
        }
        ctx.st.sample(|| json!({"member": cfg, "input": input, "entry": match entry { Entry::Parser => "from_str", Entry::Builder => "build", Entry::New => "GenericPurl::new" }, "trace": j.word}));
        ctx.st.set_insert("trace-words", j.word);
    }
    if let Some(f) = f {
        let (kind, tag) = (f.kind.clone(), f.tag.clone());
        let min = if via_parser {
            shrink_str(input, &mut |c| judge(cfg, c, true).1.map_or(false, |g| g.kind == kind && g.tag == tag))
        } else {
            input.to_string()
        };
        let g = judge_entry(cfg, &min, entry).1.unwrap_or(f);
        ctx.st.violation("C14.protocol", format!("C14.protocol:{}:{}", g.kind, g.tag), g.detail, json!({"cfg": cfg, "input": min, "via_parser": via_parser, "via_new": entry == Entry::New}));
    }
}

pub fn run(ctx: &mut Ctx) {
    let cfgs = shapes::all_cfgs();
    let (corpus, _) = gen::load_corpus();
    // a fixed pool of token-language strings (reduced G1) shared by all members
    let mut pool: Vec<String> = Vec::new();
    {
        let mut f = |_i: u64, s: &str| pool.push(s.to_string());
        gen::for_each_lang(gen::G1_CONTEXTS, gen::SIGMA_STRUCT, 2, 0, 1, 0, &mut f);
    }
    let mut r = ctx.rng("c14");
    let rounds = if ctx.quick() { 240 } else { 4000 };
    for (i, base) in cfgs.iter().enumerate() {
        if !ctx.mine(i as u64) {
            continue;
        }
        ctx.st.count("members-exercised");
        for round in 0..rounds {
            let mut cfg = base.clone();
            cfg.cs_ok = r.pick(shapes::CS_OK_TEXTS).to_string();
            cfg.cs_bad = r.pick(shapes::CS_BAD_TEXTS).to_string();
            for k in 0..3 {
                cfg.values[k] = if round % 2 == 0 { r.pick(U_VALUES).to_string() } else { gen::mixed_string(&mut r, 0, 8, 50) };
            }
            match round % 4 {
                0 => {
                    let t = spell::gen_tuple(&mut r, false);
                    let mask = spell::random_mask(&mut r);
                    let sp = spell::spell(&mut r, &t, mask);
                    let s = sp.assemble();
                    one(ctx, &cfg, &s, true);
                    // the same spelling with one fault of the C05 kinds (bad qualifier, malformed
                    // checksum, bad escape, ...): where in the protocol the refusal happens
                    if round % 8 == 0 {
                        // (half of them checksum faults: the one defect the hook may still repair)
                        let kind = if r.coin() { *r.pick(&["checksum-no-colon", "checksum-odd", "checksum-nonhex", "checksum-dup-alg", "checksum-stray-comma"]) } else { *r.pick(spell::FAULT_KINDS) };
                        if let Some(bad) = spell::inject(&mut r, &t, &sp, kind) {
                            ctx.st.count("inputs-with-an-injected-fault");
                            one(ctx, &cfg, &bad, true);
                        }
                    }
                },
                1 => {
                    let s = gen::mutate(&mut r, &corpus);
                    one(ctx, &cfg, &s, true);
                },
                2 => {
                    let s = r.pick(&pool).clone();
                    one(ctx, &cfg, &s, true);
                },
                _ => {
                    let name = if r.chance(1, 8) { String::new() } else { gen::mixed_string(&mut r, 1, 8, 40) };
                    one(ctx, &cfg, &name, false);
                    one_entry(ctx, &cfg, &name, Entry::New);
                },
            }
        }
    }
    if ctx.worker == 0 {
        ctx.st.exhaustive.push(json!({"name": "all 2 x 2^9 x 3 = 3072 members of the shape family (conversion ok/fails x hook behaviour bitmask x reported type string)", "size": 3072, "completed": true}));
    }
}

pub fn replay(_monitor: &str, case: &Value) -> Result<Option<Fail>, String> {
    let cfg: Cfg = serde_json::from_value(case.get("cfg").cloned().unwrap_or(Value::Null)).map_err(|e| e.to_string())?;
    let via = case.get("via_parser").and_then(|v| v.as_bool()).unwrap_or(true);
    if case.get("via_new").and_then(|v| v.as_bool()).unwrap_or(false) {
        return Ok(judge_entry(&cfg, str_field(case, "input")?, Entry::New).1);
    }
    Ok(judge(&cfg, str_field(case, "input")?, via).1)
}
