//! Shared source of PURL *values* for the value-level monitors (C04, C10, C19): every value is
//! produced by the real library from a recorded source (an input string, or a builder
//! history) so that witnesses can be shrunk and replayed.

use std::borrow::Cow;
use std::fmt::Debug;
use std::hash::Hash;
use std::str::FromStr;

use purl::{GenericPurl, PackageType, PurlShape, SmallString};
use serde_json::{json, Value};

use super::Fail;
use crate::exec::{self, run_hist};
use crate::gen;
use crate::hist::{self, Call, Hist};
use crate::obs::{self, Ctx, Out, Stats};
use crate::shrink::{shrink_str, shrink_vec};
use crate::spell;

/// A monitor that judges single values.
pub trait Visitor {
    const MONITOR: &'static str;
    fn visit<T>(&mut self, st: &mut Stats, p: &GenericPurl<T>, tp: &'static str, observe: bool) -> Option<Fail>
    where
        T: PurlShape + Clone + Eq + Hash + Ord + Debug,
        T::Error: Debug;
}

pub const PARSED_INSTS: [&str; 3] = ["String", "SmallString", "Purl"];
pub const BUILT_TPS: [&str; 5] = ["String", "SmallString", "Cow::Owned", "Cow::Borrowed", "PackageType"];

fn visit_parsed_t<T, V: Visitor>(v: &mut V, st: &mut Stats, s: &str, tp: &'static str, observe: bool) -> Option<Option<Fail>>
where
    T: FromStr + PurlShape + Clone + Eq + Hash + Ord + Debug,
    <T as PurlShape>::Error: From<<T as FromStr>::Err> + Debug,
{
    match obs::parse::<T>(s) {
        Out::Ok(p) => Some(v.visit(st, &p, tp, observe)),
        _ => None,
    }
}

/// Parse `s` with instantiation `inst` and visit the value. None = not accepted.
pub fn visit_parsed<V: Visitor>(v: &mut V, st: &mut Stats, inst: &str, s: &str, observe: bool) -> Option<Option<Fail>> {
    match inst {
        "String" => visit_parsed_t::<String, V>(v, st, s, "String", observe),
        "SmallString" => visit_parsed_t::<SmallString, V>(v, st, s, "SmallString", observe),
        "Purl" => visit_parsed_t::<PackageType, V>(v, st, s, "PackageType", observe),
        _ => None,
    }
}

fn visit_built_t<'a, T, V: Visitor>(v: &mut V, st: &mut Stats, h: &'a Hist, mk: &dyn Fn(&'a str) -> Option<T>, tp: &'static str, observe: bool) -> Option<Option<Fail>>
where
    T: PurlShape + Clone + Eq + Hash + Ord + Debug + crate::exec::Reparse,
    T::Error: Debug,
{
    let run = run_hist(h, mk)?;
    match obs::build(run.builder?) {
        Out::Ok(p) => Some(v.visit(st, &p, tp, observe)),
        _ => None,
    }
}

pub fn visit_built<V: Visitor>(v: &mut V, st: &mut Stats, tp: &str, h: &Hist, observe: bool) -> Option<Option<Fail>> {
    match tp {
        "String" => visit_built_t::<String, V>(v, st, h, &exec::mk_string, "String", observe),
        "SmallString" => visit_built_t::<SmallString, V>(v, st, h, &exec::mk_small, "SmallString", observe),
        "Cow::Owned" => visit_built_t::<Cow<str>, V>(v, st, h, &exec::mk_cow_owned, "Cow::Owned", observe),
        "Cow::Borrowed" => visit_built_t::<Cow<str>, V>(v, st, h, &exec::mk_cow_borrowed, "Cow::Borrowed", observe),
        "PackageType" => visit_built_t::<PackageType, V>(v, st, h, &exec::mk_typed, "PackageType", observe),
        _ => None,
    }
}

fn report_parsed<V: Visitor>(v: &mut V, ctx: &mut Ctx, inst: &str, s: &str, f: Fail) {
    let (kind, tag) = (f.kind.clone(), f.tag.clone());
    let mut scratch = Stats::default();
    let min = shrink_str(s, &mut |c| matches!(visit_parsed(v, &mut scratch, inst, c, false), Some(Some(g)) if g.kind == kind && g.tag == tag));
    let g = visit_parsed(v, &mut scratch, inst, &min, false).flatten().unwrap_or(f);
    ctx.st.violation(V::MONITOR, g.signature(V::MONITOR, &min), g.detail, json!({"source": "parsed", "instantiation": inst, "input": min, "original_input": s}));
}

fn report_built<V: Visitor>(v: &mut V, ctx: &mut Ctx, tp: &str, h: &Hist, f: Fail) {
    let (kind, tag) = (f.kind.clone(), f.tag.clone());
    let mut scratch = Stats::default();
    let calls = shrink_vec(&h.calls, &mut |cs| {
        let hh = Hist { ty: h.ty.clone(), name: h.name.clone(), calls: cs.to_vec() };
        matches!(visit_built(v, &mut scratch, tp, &hh, false), Some(Some(g)) if g.kind == kind && g.tag == tag)
    });
    let hh = Hist { ty: h.ty.clone(), name: h.name.clone(), calls };
    let g = visit_built(v, &mut scratch, tp, &hh, false).flatten().unwrap_or(f);
    ctx.st.violation(V::MONITOR, g.signature(V::MONITOR, &format!("{hh:?}")), g.detail, json!({"source": "built", "type_parameter": tp, "history": hh}));
}

pub fn parsed_case<V: Visitor>(v: &mut V, ctx: &mut Ctx, inst: &'static str, s: &str) {
    if let Some(r) = visit_parsed(v, &mut ctx.st, inst, s, true) {
        ctx.st.evaluations += 1;
        ctx.st.count(match inst {
            "String" => "values:parsed:String",
            "SmallString" => "values:parsed:SmallString",
            _ => "values:parsed:Purl",
        });
        if let Some(f) = r {
            report_parsed(v, ctx, inst, s, f);
        }
    }
}

pub fn built_case<V: Visitor>(v: &mut V, ctx: &mut Ctx, tp: &'static str, h: &Hist) {
    if let Some(r) = visit_built(v, &mut ctx.st, tp, h, true) {
        ctx.st.evaluations += 1;
        ctx.st.count(match tp {
            "String" => "values:built:String",
            "SmallString" => "values:built:SmallString",
            "Cow::Owned" => "values:built:Cow::Owned",
            "Cow::Borrowed" => "values:built:Cow::Borrowed",
            _ => "values:built:PackageType",
        });
        if let Some(f) = r {
            report_built(v, ctx, tp, h, f);
        }
    }
}

/// Histories aimed at the name rules (pypi / nuget names that the rule changes).
pub fn name_hist(r: &mut crate::rng::Rng) -> Hist {
    let ty = r.pick(&["pypi", "nuget", "pypi", "nuget", "maven", "npm", "golang", "cargo", "gem"]).to_string();
    let mut name = String::new();
    for _ in 0..r.range(1, 8) {
        // incl. letters whose lower-case form has another UTF-8 length (İ, Kelvin sign, Ⱥ, ẞ) and Σ (final-sigma contexts)
        name.push(*r.pick(&['a', 'A', '1', '-', '_', '.', 'Æ', 'ǅ', 'İ', 'ᾈ', 'Σ', 'ß', 'é', '\u{212A}', 'Ⱥ', 'ẞ', 'Α', 'σ']));
    }
    // one name in four: a capital together with any scalar of the blocks where case mappings
    // are irregular (non-letters inside letter blocks: × ÷ ª º; cased scalars beyond the BMP)
    if r.chance(1, 4) {
        let c = match r.below(4) {
            0 => char::from_u32(0x80 + r.below(0x180) as u32),
            1 => char::from_u32(0x370 + r.below(0x200) as u32),
            2 => char::from_u32(*r.pick(&[0x10400u32, 0x104B0, 0x10C80, 0x118A0, 0x16E40, 0x1E900]) + r.below(40) as u32),
            _ => char::from_u32(0x1E00 + r.below(0x300) as u32),
        }
        .unwrap_or('×');
        let cap = *r.pick(&['É', 'A', 'Ω', '\u{10400}']);
        name = match r.below(3) {
            0 => format!("{cap}{c}"),
            1 => format!("{c}{name}{cap}"),
            _ => format!("{name}_{c}{cap}"),
        };
    }
    let mut calls = vec![];
    if ty == "maven" || r.chance(1, 3) {
        calls.push(Call::Ns(gen::mixed_string(r, 1, 6, 20)));
    }
    if r.coin() {
        calls.push(Call::Ver(gen::mixed_string(r, 1, 6, 30)));
    }
    Hist { ty, name, calls }
}

/// The standard value workload: parsed values from the (reduced) token language, legal
/// spellings and the mutated corpus; built values from random histories for every built-in
/// type parameter, plus name-rule histories for the enum.
pub fn standard_workload<V: Visitor>(v: &mut V, ctx: &mut Ctx, tag: &str, scale_q: u64, scale_t: u64) {
    let (w, n, quick) = (ctx.worker, ctx.nworkers, ctx.quick());
    {
        let mut f = |_i: u64, s: &str| {
            for inst in PARSED_INSTS {
                parsed_case(v, ctx, inst, s);
            }
        };
        let (total, name) = gen::for_each_g1_reduced(quick, w, n, &mut f);
        if ctx.worker == 0 {
            ctx.st.exhaustive.push(json!({"name": format!("{name}: every accepted string's value"), "size": total, "completed": true, "instantiations": 3}));
        }
    }
    {
        // every scalar in every restricted slot: whatever of it is accepted is a value too
        let total = gen::for_each_slot_string(w, n, &mut |s: &str| parsed_case(v, ctx, "String", s));
        ctx.st.add("slot-sweep-strings", total);
        if ctx.worker == 0 {
            ctx.st.exhaustive.push(json!({"name": "every Unicode scalar, raw and percent-encoded, in 11 restricted slots: every accepted string's value", "size": 1_112_064u64 * 22, "completed": true}));
        }
    }
    let mut r = ctx.rng(&format!("{tag}.g2"));
    for _ in 0..ctx.share(60_000 * scale_q, 1_500_000 * scale_t) {
        let known = r.chance(1, 3);
        let t = spell::gen_tuple(&mut r, known);
        let mask = spell::random_mask(&mut r);
        let s = spell::spell(&mut r, &t, mask).assemble();
        parsed_case(v, ctx, "String", &s);
        parsed_case(v, ctx, "SmallString", &s);
        if known {
            parsed_case(v, ctx, "Purl", &s);
        }
    }
    let (corpus, _) = gen::load_corpus();
    let mut r = ctx.rng(&format!("{tag}.g10"));
    for _ in 0..ctx.share(60_000 * scale_q, 1_500_000 * scale_t) {
        let s = gen::mutate(&mut r, &corpus);
        for inst in PARSED_INSTS {
            parsed_case(v, ctx, inst, &s);
        }
    }
    let mut r = ctx.rng(&format!("{tag}.g4"));
    for _ in 0..ctx.share(60_000 * scale_q, 1_500_000 * scale_t) {
        let h = hist::rand_hist(&mut r, false);
        for tp in &BUILT_TPS[..4] {
            built_case(v, ctx, tp, &h);
        }
        let h = hist::rand_hist(&mut r, true);
        built_case(v, ctx, "PackageType", &h);
        let h = name_hist(&mut r);
        built_case(v, ctx, "PackageType", &h);
        let h = hist::stale_hist(&mut r, false);
        built_case(v, ctx, "String", &h);
        let h = hist::stale_hist(&mut r, true);
        built_case(v, ctx, "PackageType", &h);
    }
}

/// Replay of a case recorded by `report_parsed` / `report_built`.
pub fn replay<V: Visitor>(v: &mut V, case: &Value) -> Result<Option<Fail>, String> {
    let mut scratch = Stats::default();
    match super::str_field(case, "source")? {
        "parsed" => Ok(visit_parsed(v, &mut scratch, super::str_field(case, "instantiation")?, super::str_field(case, "input")?, false).flatten()),
        "built" => {
            let h: Hist = serde_json::from_value(case.get("history").cloned().unwrap_or(Value::Null)).map_err(|e| e.to_string())?;
            Ok(visit_built(v, &mut scratch, super::str_field(case, "type_parameter")?, &h, false).flatten())
        },
        o => Err(format!("unknown source {o}")),
    }
}
