//! C06 — no input makes the library panic, overflow or fail to terminate.
//!
//! Oracle: `catch_unwind` + panic hook around every call (the harness is built with
//! overflow-checks and debug-assertions), documented panics accepted only where a model says
//! their precondition holds, and bounded progress: a supervisor thread watches the thread CPU
//! time of the call in flight on every worker; a call over `CPU_BOUND_S` is reported with the
//! input that caused it (regenerated from generator id + index).

use std::borrow::Cow;
use std::fmt::Debug;
use std::str::FromStr;
use std::sync::atomic::{AtomicBool, AtomicU64, Ordering};

use purl::qualifiers::well_known::{Checksum, KnownQualifierKey};
use purl::{GenericPurl, GenericPurlBuilder, PackageType, ParseError, PurlParts, PurlShape, Qualifiers, SmallString};
use serde_json::{json, Value};

use super::c11::{self, QOp};
use super::{str_field, Fail};
use crate::exec::{self, run_hist};
use crate::gen;
use crate::hist::{self, Hist};
use crate::obs::{self, guard, guard_res, Ctx, Out, Tier};
use crate::rng::{fnv, Rng};
use crate::shrink::{shrink_str, shrink_vec};

pub const RULE: &str = "a case is one input (string, builder history, qualifier-collection history, checksum text) on which a group of public calls is executed under catch_unwind; non-trivial = the input is accepted by at least one call of the group (the calls went past validation) or is one of the large inputs; distinct by hash of the input";

/// Bounded-progress restatement of "fails to terminate": thread CPU seconds for the calls on one input <= 1 MiB.
pub const CPU_BOUND_S: u64 = 120;

pub fn requirements(tier: Tier) -> Vec<(&'static str, u64)> {
    let q = tier == Tier::Quick;
    vec![
        ("strings-exercised", if q { 3_000_000 } else { 50_000_000 }),
        ("strings-accepted", 500_000),
        ("large-inputs", 80),
        ("max:input-bytes", 1_000_000),
        ("builder-histories", 100_000),
        ("qualifier-operations", 1_000_000),
        ("checksum-texts", 100_000),
        ("empty-checksum-serialised", 100),
        ("large-builder-values", 32),
        ("name-rule-and-combined-name-cases", 100_000),
    ]
}

// --- CPU clocks and the supervisor ------------------------------------------------------------

pub fn thread_cpu_ns() -> u64 {
    let mut ts = libc::timespec { tv_sec: 0, tv_nsec: 0 };
    unsafe {
        libc::clock_gettime(libc::CLOCK_THREAD_CPUTIME_ID, &mut ts);
    }
    ts.tv_sec as u64 * 1_000_000_000 + ts.tv_nsec as u64
}

fn cpu_ns_of_thread(t: u64) -> Option<u64> {
    let mut cid: libc::clockid_t = 0;
    let mut ts = libc::timespec { tv_sec: 0, tv_nsec: 0 };
    unsafe {
        if libc::pthread_getcpuclockid(t as libc::pthread_t, &mut cid) != 0 {
            return None;
        }
        if libc::clock_gettime(cid, &mut ts) != 0 {
            return None;
        }
    }
    Some(ts.tv_sec as u64 * 1_000_000_000 + ts.tv_nsec as u64)
}

const MAXW: usize = 64;
#[allow(clippy::declare_interior_mutable_const)]
const Z: AtomicU64 = AtomicU64::new(0);
static THREADS: [AtomicU64; MAXW] = [Z; MAXW];
static GEN_ID: [AtomicU64; MAXW] = [Z; MAXW];
static GEN_IDX: [AtomicU64; MAXW] = [Z; MAXW];
static START_CPU: [AtomicU64; MAXW] = [Z; MAXW];
static DONE: AtomicBool = AtomicBool::new(false);
static SUPERVISOR: std::sync::Once = std::sync::Once::new();

pub const GEN_G1: u64 = 1;
pub const GEN_G10: u64 = 2;
pub const GEN_SOUP: u64 = 3;
pub const GEN_LARGE: u64 = 4;
pub const GEN_HIST: u64 = 5;
pub const GEN_QUAL: u64 = 6;
pub const GEN_CS: u64 = 7;

fn watch(worker: usize, gen_id: u64, idx: u64) {
    if worker < MAXW {
        GEN_IDX[worker].store(idx, Ordering::Relaxed);
        START_CPU[worker].store(thread_cpu_ns(), Ordering::Relaxed);
        GEN_ID[worker].store(gen_id, Ordering::Release);
    }
}

fn unwatch(worker: usize) {
    if worker < MAXW {
        GEN_ID[worker].store(0, Ordering::Release);
    }
}

fn start_supervisor(seed: u64, tier: Tier, nworkers: usize) {
    SUPERVISOR.call_once(|| {
        std::thread::spawn(move || loop {
            std::thread::sleep(std::time::Duration::from_millis(500));
            if DONE.load(Ordering::Relaxed) {
                return;
            }
            for w in 0..nworkers.min(MAXW) {
                let g = GEN_ID[w].load(Ordering::Acquire);
                let t = THREADS[w].load(Ordering::Relaxed);
                if g == 0 || t == 0 {
                    continue;
                }
                let idx = GEN_IDX[w].load(Ordering::Relaxed);
                let start = START_CPU[w].load(Ordering::Relaxed);
                let Some(now) = cpu_ns_of_thread(t) else { continue };
                if GEN_ID[w].load(Ordering::Acquire) != g || GEN_IDX[w].load(Ordering::Relaxed) != idx {
                    continue;
                }
                if now.saturating_sub(start) > CPU_BOUND_S * 1_000_000_000 {
                    // report and leave: the worker cannot be cancelled
                    let case = json!({"kind": "regen", "gen": g, "idx": idx, "seed": seed, "worker": w, "nworkers": nworkers, "tier": if tier == Tier::Quick { "quick" } else { "thorough" }});
                    println!("C06-CPU-BOUND {}", case);
                    std::process::exit(3);
                }
            }
        });
    });
}

// --- exercising one string --------------------------------------------------------------------

fn note(fail: &mut Option<Fail>, what: &str, input: &str, o: &str) {
    if fail.is_none() {
        let short: String = input.chars().take(120).collect();
        let loc = o.rsplit(" @ ").next().unwrap_or("?").to_string();
        *fail = Some(Fail::tagged("panicked", loc, format!("{what} on {short:?}{}: {o}", if input.len() > short.len() { " (truncated)" } else { "" })));
    }
}

fn exercise_value<T>(p: &GenericPurl<T>, input: &str, fail: &mut Option<Fail>)
where
    T: PurlShape + Clone + PartialEq + Debug,
    T::Error: Debug,
{
    if let Out::Panic(m) = obs::show(p) {
        note(fail, "to_string()", input, &m);
    }
    // Display into a sink that fails after n bytes: the error is propagated, nothing panics
    if let Out::Panic(m) = guard("Display into failing sink", || {
        struct Limited(usize);
        impl std::fmt::Write for Limited {
            fn write_str(&mut self, s: &str) -> std::fmt::Result {
                if s.len() > self.0 {
                    self.0 = 0;
                    Err(std::fmt::Error)
                } else {
                    self.0 -= s.len();
                    Ok(())
                }
            }
        }
        let mut failed = 0;
        for n in [0usize, 1, 4, 5, 9, 17, 33, 70] {
            use std::fmt::Write;
            if write!(Limited(n), "{p}").is_err() {
                failed += 1;
            }
        }
        failed
    }) {
        note(fail, "Display into a failing sink", input, &m);
    }
    if let Out::Panic(m) = guard("Debug", || format!("{p:?}").len()) {
        note(fail, "Debug", input, &m);
    }
    match guard_res("into_builder().build()", || p.clone().into_builder().build()) {
        Out::Panic(m) => note(fail, "into_builder().build()", input, &m),
        Out::Ok(q) => {
            if let Out::Panic(m) = guard("PartialEq", || q == *p) {
                note(fail, "==", input, &m);
            }
        },
        _ => {},
    }
    let q = p.qualifiers();
    if let Out::Panic(m) = guard("qualifiers walk", || {
        let mut n = 0usize;
        for (k, v) in q.iter().rev() {
            n += k.len() + v.len();
            let _ = q.get(k.as_str());
            let _ = q.contains_key(k.to_ascii_uppercase());
        }
        if let Ok(Some(cs)) = q.try_get_typed::<Checksum>() {
            for (a, v) in cs.iter() {
                n += a.len() + v.raw().len();
                let _ = v.decode::<Vec<u8>>();
                let _ = cs.get_raw(a);
            }
            let _ = SmallString::try_from(cs);
        }
        n
    }) {
        note(fail, "qualifier accessors", input, &m);
    }
}

fn exercise_inst<T>(s: &str, fail: &mut Option<Fail>) -> bool
where
    T: FromStr + PurlShape + Clone + PartialEq + Debug,
    <T as PurlShape>::Error: From<<T as FromStr>::Err> + Debug,
{
    match obs::parse::<T>(s) {
        Out::Ok(p) => {
            exercise_value(&p, s, fail);
            true
        },
        Out::Err(_) => false,
        Out::Panic(m) => {
            note(fail, "from_str", s, &m);
            false
        },
    }
}

/// All parse-side calls on one string. Returns (accepted by some instantiation, failure).
pub fn exercise_string(s: &str) -> (bool, Option<Fail>) {
    let mut fail = None;
    let a = exercise_inst::<String>(s, &mut fail);
    let b = exercise_inst::<SmallString>(s, &mut fail);
    let c = match obs::parse::<PackageType>(s) {
        Out::Ok(p) => {
            exercise_value(&p, s, &mut fail);
            if let Out::Panic(m) = guard("combined_name", || p.combined_name().len()) {
                note(&mut fail, "combined_name()", s, &m);
            }
            true
        },
        Out::Err(_) => false,
        Out::Panic(m) => {
            note(&mut fail, "Purl::from_str", s, &m);
            false
        },
    };
    // a user-supplied type whose conversion maps every spelling to one canonical name (aliases:
    // "crates" for cargo, "go" for golang): parsing with it returns a value or an error too, and
    // its type string is valid, so printing is not the documented panic either
    match guard("GenericPurl::<Alias>::from_str", || s.parse::<purl::GenericPurl<Alias>>().map(|p| p.to_string().len())) {
        Out::Panic(m) => note(&mut fail, "GenericPurl::<Alias>::from_str", s, &m),
        _ => {},
    }
    // the same text as a combined name, a checksum text, a package type
    if s.len() < 4096 {
        if let Out::Panic(m) = guard("builder_with_combined_name", || {
            for t in exec::ALL_TYPES {
                let _ = purl::Purl::builder_with_combined_name(t, s).build();
            }
        }) {
            note(&mut fail, "builder_with_combined_name", s, &m);
        }
        if let Out::Panic(m) = guard("PackageType::from_str", || PackageType::from_str(s).is_ok()) {
            note(&mut fail, "PackageType::from_str", s, &m);
        }
    }
    (a || b || c, fail)
}

// --- checksum texts ---------------------------------------------------------------------------

pub fn exercise_checksum_text(text: &str) -> Option<Fail> {
    let mut fail = None;
    match guard_res("Checksum::try_from(&str)", || Checksum::try_from(text)) {
        Out::Panic(m) => note(&mut fail, "Checksum::try_from", text, &m),
        Out::Ok(cs) => {
            if let Out::Panic(m) = guard("Checksum accessors", || {
                let mut n = 0;
                for (a, v) in cs.iter() {
                    n += v.raw().len();
                    let _ = v.decode::<Vec<u8>>();
                    let _ = v.decode::<[u8; 4]>();
                    let _ = cs.get::<Vec<u8>>(a);
                    let _ = cs.get_value(a).map(|x| x.len());
                }
                for a in cs.algorithms() {
                    n += a.len();
                }
                let mut c2 = cs.clone();
                c2.insert_raw(text, text.to_string());
                c2.insert(text, text.as_bytes());
                c2.remove(text);
                let _ = SmallString::try_from(c2);
                let _ = SmallString::try_from(cs.clone());
                n
            }) {
                note(&mut fail, "Checksum accessors", text, &m);
            }
        },
        Out::Err(_) => {},
    }
    fail
}

// --- documented panics ------------------------------------------------------------------------

struct BadKey<'a>(&'a str);

impl KnownQualifierKey for BadKey<'_> {
    const KEY: &'static str = "not a valid key!";
}

impl<'a> From<BadKey<'a>> for SmallString {
    fn from(v: BadKey<'a>) -> Self {
        SmallString::from(v.0)
    }
}

impl<'a> From<&'a str> for BadKey<'a> {
    fn from(v: &'a str) -> Self {
        BadKey(v)
    }
}

struct GoodKey<'a>(&'a str);

impl KnownQualifierKey for GoodKey<'_> {
    const KEY: &'static str = "Good.Key-1_x";
}

impl<'a> From<GoodKey<'a>> for SmallString {
    fn from(v: GoodKey<'a>) -> Self {
        SmallString::from(v.0)
    }
}

/// A user-supplied type that accepts every syntactically valid type string as an alias of
/// one canonical type.
#[derive(Clone)]
struct Alias;

impl std::str::FromStr for Alias {
    type Err = ParseError;

    fn from_str(_: &str) -> Result<Self, Self::Err> {
        Ok(Alias)
    }
}

impl PurlShape for Alias {
    type Error = ParseError;

    fn package_type(&self) -> Cow<str> {
        Cow::Borrowed("canonical")
    }

    fn finish(&mut self, _parts: &mut PurlParts) -> Result<(), Self::Error> {
        Ok(())
    }
}

struct BadType;

impl PurlShape for BadType {
    type Error = ParseError;

    fn package_type(&self) -> Cow<str> {
        Cow::Borrowed("bad type")
    }

    fn finish(&mut self, _parts: &mut PurlParts) -> Result<(), Self::Error> {
        Ok(())
    }
}

/// The three documented panics happen exactly when documented.
fn documented_panics(ctx: &mut Ctx, r: &mut Rng) {
    let v = gen::mixed_string(r, 0, 8, 50);
    // typed qualifier with an invalid declared key: panics; with a valid one: does not
    let mut q = Qualifiers::default();
    match guard("insert_typed(invalid KEY)", || q.insert_typed(BadKey(&v))) {
        Out::Panic(_) => ctx.st.count("documented-panic:typed-key-invalid"),
        _ => ctx.st.count("documented-panic-did-not-happen:insert_typed"),
    }
    let b = GenericPurlBuilder::new("t".to_string(), "n");
    match guard("with_typed_qualifier(invalid KEY)", || b.with_typed_qualifier(Some(BadKey(&v))).parts.qualifiers.len()) {
        Out::Panic(_) => ctx.st.count("documented-panic:typed-key-invalid"),
        _ => ctx.st.count("documented-panic-did-not-happen:with_typed_qualifier"),
    }
    let mut q = Qualifiers::default();
    if let Out::Panic(m) = guard("insert_typed(valid KEY)", || {
        q.insert_typed(GoodKey(&v));
        q.remove_typed::<GoodKey>();
        q.contains_typed::<GoodKey>()
    }) {
        ctx.st.violation("C06.panic", "C06.panic:panicked:insert_typed-valid-key".into(), format!("insert_typed with a valid KEY panicked: {m}"), json!({"kind": "documented"}));
    }
    // only *inserting* under an invalid declared key is a documented panic: removing, reading
    // and testing for it are not
    let mut q = Qualifiers::default();
    let _ = q.insert("k", v.as_str());
    if let Out::Panic(m) = guard("typed reads / removal (invalid KEY)", || {
        q.remove_typed::<BadKey>();
        let a = q.contains_typed::<BadKey>();
        let b = q.get_typed::<BadKey>().is_some();
        let c = matches!(q.try_get_typed::<BadKey>(), Ok(Some(_)));
        (a, b, c)
    }) {
        ctx.st.violation("C06.panic", "C06.panic:panicked:typed-read-or-removal-invalid-key".into(), format!("remove_typed / contains_typed / get_typed / try_get_typed with an invalid KEY panicked: {m}"), json!({"kind": "documented"}));
    }
    let b = GenericPurlBuilder::new("t".to_string(), "n");
    if let Out::Panic(m) = guard("with_typed_qualifier(None) (invalid KEY)", || {
        let b = b.with_typed_qualifier(None::<BadKey>);
        b.try_with_typed_qualifier(None::<BadKey>).map(|b| b.parts.qualifiers.len()).unwrap_or(0)
    }) {
        ctx.st.violation("C06.panic", "C06.panic:panicked:typed-none-invalid-key".into(), format!("with_typed_qualifier(None) / try_with_typed_qualifier(None) with an invalid KEY panicked: {m}"), json!({"kind": "documented"}));
    }
    ctx.st.count("typed-non-insert-operations-with-invalid-key");
    // small public helpers that take no input
    if let Out::Panic(m) = guard("PurlField helpers", || {
        use purl::PurlField::*;
        let mut n = 0;
        for f in [PackageType, Namespace, Name, Version, Subpath] {
            n += f.name().len() + f.to_string().len() + <&'static str>::from(f).len() + format!("{f:?}").len();
        }
        let e = purl::ParseError::MissingRequiredField(Version);
        n + e.to_string().len() + format!("{e:?}").len()
    }) {
        ctx.st.violation("C06.panic", "C06.panic:panicked:PurlField".into(), m, json!({"kind": "documented"}));
    }
    // Display of a user shape reporting an invalid type: panics (documented); everything else on it does not
    match obs::build(GenericPurlBuilder::new(BadType, v.as_str()).with_version(v.as_str())) {
        Out::Ok(p) => {
            match obs::show(&p) {
                Out::Panic(_) => ctx.st.count("documented-panic:display-invalid-type"),
                _ => ctx.st.count("documented-panic-did-not-happen:display"),
            }
            if let Out::Panic(m) = guard("accessors of invalid-type PURL", || p.name().len() + p.version().map_or(0, str::len) + p.qualifiers().len()) {
                ctx.st.violation("C06.panic", "C06.panic:panicked:accessors-invalid-type".into(), m, json!({"kind": "documented"}));
            }
        },
        Out::Err(_) => {},
        Out::Panic(m) => ctx.st.violation("C06.panic", "C06.panic:panicked:build-invalid-type".into(), m, json!({"kind": "documented"})),
    }
}

// --- builder and collection histories ----------------------------------------------------------

fn exercise_hist<'a, T>(h: &'a Hist, mk: &dyn Fn(&'a str) -> Option<T>) -> Option<Fail>
where
    T: PurlShape + Clone + PartialEq + Debug + crate::exec::Reparse,
    T::Error: Debug,
{
    let run = run_hist(h, mk)?;
    if let Some(p) = run.panic {
        let loc = p.rsplit(" @ ").next().unwrap_or("?").to_string();
        return Some(Fail::tagged("panicked", loc, format!("a builder call of {h:?} panicked: {p}")));
    }
    let mut fail = None;
    match obs::build(run.builder?) {
        Out::Ok(p) => exercise_value(&p, &format!("{h:?}"), &mut fail),
        Out::Panic(m) => note(&mut fail, "build()", &format!("{h:?}"), &m),
        Out::Err(_) => {},
    }
    // the one-step constructor on the same type and name
    if let Some(t) = mk(&h.ty) {
        match guard("GenericPurl::new", || purl::GenericPurl::new(t, h.name.as_str())) {
            Out::Ok(Ok(p)) => exercise_value(&p, &format!("GenericPurl::new({:?}, {:?})", h.ty, h.name), &mut fail),
            Out::Panic(m) => note(&mut fail, "GenericPurl::new", &format!("({:?}, {:?})", h.ty, h.name), &m),
            _ => {},
        }
    }
    fail
}

pub fn exercise_hist_all(h: &Hist, typed: bool) -> Option<Fail> {
    if typed {
        return exercise_hist::<PackageType>(h, &exec::mk_typed);
    }
    exercise_hist::<String>(h, &exec::mk_string)
        .or_else(|| exercise_hist::<SmallString>(h, &exec::mk_small))
        .or_else(|| exercise_hist::<Cow<str>>(h, &exec::mk_cow_owned))
        .or_else(|| exercise_hist::<Cow<str>>(h, &exec::mk_cow_borrowed))
}

/// Qualifier history: only panics matter here; an `Index`/`IndexMut` panic is the documented
/// one exactly when the reference map says the key is absent or invalid.
pub fn exercise_qops(ops: &[QOp]) -> (u64, Option<Fail>) {
    let mut q = Qualifiers::default();
    let mut m = std::collections::BTreeMap::new();
    let mut documented = 0;
    for op in ops {
        let want = c11::apply_model(&mut m, op);
        match guard("Qualifiers op", || c11::apply_real(&mut q, op)) {
            Out::Panic(p) => {
                let is_index = matches!(op, QOp::Index(_) | QOp::IndexMut(..));
                if is_index && want == "PANIC" && p.starts_with("Qualifier ") {
                    documented += 1;
                } else {
                    let loc = p.rsplit(" @ ").next().unwrap_or("?").to_string();
                    return (documented, Some(Fail::tagged("panicked", loc, format!("{op:?} panicked: {p} (model result: {want})"))));
                }
            },
            _ => {},
        }
    }
    (documented, None)
}

// --- regenerating an input from (generator, index) ---------------------------------------------

fn g10_string(seed: u64, worker: usize, idx: u64, corpus: &[String]) -> String {
    let mut r = Rng::stream(seed, worker as u64, "c06.g10");
    let mut s = String::new();
    for _ in 0..=idx {
        s = gen::mutate(&mut r, corpus);
    }
    s
}

fn soup_string(seed: u64, worker: usize, idx: u64) -> String {
    let mut r = Rng::stream(seed, worker as u64, "c06.soup");
    let mut s = String::new();
    for _ in 0..=idx {
        s = gen::escape_soup(&mut r);
    }
    s
}

fn large_catalogue() -> Vec<(String, String)> {
    let mut v = Vec::new();
    for size in [64 << 10, 256 << 10, 1 << 20] {
        for (name, s) in gen::large_inputs(size) {
            v.push((format!("{name}@{}KiB", size >> 10), s));
        }
    }
    v
}

// --- run ----------------------------------------------------------------------------------------

fn string_case(ctx: &mut Ctx, s: &str, gen_id: u64, idx: u64) {
    watch(ctx.worker, gen_id, idx);
    let t0 = thread_cpu_ns();
    let (accepted, f) = exercise_string(s);
    let cpu = thread_cpu_ns() - t0;
    unwatch(ctx.worker);
    ctx.st.evaluations += 1;
    ctx.st.count("strings-exercised");
    ctx.st.max("max:input-bytes", s.len() as u64);
    ctx.st.max("max:cpu-ms-for-one-input", cpu / 1_000_000);
    if accepted {
        ctx.st.count("strings-accepted");
        ctx.st.nontrivial(fnv(s.as_bytes()));
        if s.len() < 200 {
            ctx.st.sample(|| json!({"input": s, "calls": "from_str x3, to_string, Debug, into_builder().build(), ==, qualifier and checksum accessors, combined names", "outcome": "all returned", "thread_cpu_us": cpu / 1000}));
        }
    }
    if cpu > CPU_BOUND_S * 1_000_000_000 {
        ctx.st.violation(
            "C06.progress",
            format!("C06.progress:cpu-bound:{gen_id}"),
            format!("the calls on one input of {} bytes took {} s of thread CPU time (bound {CPU_BOUND_S} s)", s.len(), cpu / 1_000_000_000),
            json!({"kind": "regen", "gen": gen_id, "idx": idx, "seed": ctx.seed, "worker": ctx.worker, "nworkers": ctx.nworkers, "tier": if ctx.quick() { "quick" } else { "thorough" }}),
        );
    }
    if let Some(f) = f {
        let kind = f.kind.clone();
        let tag = f.tag.clone();
        let min = if s.len() <= 4096 { shrink_str(s, &mut |c| exercise_string(c).1.map_or(false, |g| g.kind == kind && g.tag == tag)) } else { s.to_string() };
        let g = exercise_string(&min).1.unwrap_or(f);
        let case = if min.len() <= 65536 { json!({"kind": "string", "input": min}) } else { json!({"kind": "regen", "gen": gen_id, "idx": idx, "seed": ctx.seed, "worker": ctx.worker, "nworkers": ctx.nworkers, "tier": if ctx.quick() { "quick" } else { "thorough" }}) };
        ctx.st.violation("C06.panic", format!("C06.panic:{}:{}", g.kind, g.tag), g.detail, case);
    }
}

pub fn run(ctx: &mut Ctx) {
    if ctx.worker < MAXW {
        THREADS[ctx.worker].store(unsafe { libc::pthread_self() } as u64, Ordering::Relaxed);
    }
    start_supervisor(ctx.seed, ctx.tier, ctx.nworkers);
    // G1 complete
    let (w, n, quick) = (ctx.worker, ctx.nworkers, ctx.quick());
    {
        let mut f = |i: u64, s: &str| string_case(ctx, s, GEN_G1, i);
        let (total, name) = gen::for_each_g1(quick, w, n, &mut f);
        if ctx.worker == 0 {
            ctx.st.exhaustive.push(json!({"name": format!("{name}: parse (3 instantiations), format, debug, rebuild, accessors, combined names"), "size": total, "completed": true}));
        }
    }
    // G10 mutated corpus — the heaviest part
    let (corpus, src) = gen::load_corpus();
    ctx.st.set_insert("corpus-source", src.to_string());
    let mut r = ctx.rng("c06.g10");
    for i in 0..ctx.share(2_000_000, 50_000_000) {
        let s = gen::mutate(&mut r, &corpus);
        string_case(ctx, &s, GEN_G10, i);
    }
    let mut r = ctx.rng("c06.soup");
    for i in 0..ctx.share(500_000, 10_000_000) {
        let s = gen::escape_soup(&mut r);
        string_case(ctx, &s, GEN_SOUP, i);
    }
    // G11 large inputs (catalogue distributed over the workers)
    for (i, (name, s)) in large_catalogue().into_iter().enumerate() {
        if !ctx.mine(i as u64) {
            continue;
        }
        ctx.st.count("large-inputs");
        let t0 = thread_cpu_ns();
        string_case(ctx, &s, GEN_LARGE, i as u64);
        let ms = (thread_cpu_ns() - t0) / 1_000_000;
        ctx.st.dyn_counters.insert(format!("large-input-cpu-ms:{name}"), ms);
        ctx.st.nontrivial(fnv(name.as_bytes()));
    }
    // large field values through the builder (format, re-parse of the string form, rebuild)
    if ctx.worker < 8 {
        let size = if ctx.quick() { 256 << 10 } else { 1 << 20 };
        let fills = ["a", "/", "%", "é", "😀", "@?#", " ", "a/../"];
        let fill = fills[ctx.worker % fills.len()].repeat(size / fills[ctx.worker % fills.len()].len());
        for field in 0..4 {
            let h = Hist {
                ty: "npm".into(),
                name: if field == 0 { fill.clone() } else { "n".into() },
                calls: match field {
                    1 => vec![hist::Call::Ns(fill.clone())],
                    2 => vec![hist::Call::Ver(fill.clone()), hist::Call::Qual("k".into(), fill.clone())],
                    3 => vec![hist::Call::Sub(fill.clone())],
                    _ => vec![],
                },
            };
            watch(ctx.worker, GEN_HIST, 1_000_000 + field);
            let f = exercise_hist_all(&h, false).or_else(|| exercise_hist_all(&h, true));
            unwatch(ctx.worker);
            ctx.st.evaluations += 1;
            ctx.st.count("large-builder-values");
            if let Some(f) = f {
                ctx.st.violation("C06.panic", format!("C06.panic:{}:{}", f.kind, f.tag), f.detail.chars().take(500).collect(), json!({"kind": "history", "typed": false, "history": h}));
            }
        }
    }
    // builder histories on every type parameter
    let mut r = ctx.rng("c06.g4");
    for i in 0..ctx.share(120_000, 4_000_000) {
        let typed = i % 3 == 0;
        let h = hist::rand_hist(&mut r, typed);
        watch(ctx.worker, GEN_HIST, i);
        let f = exercise_hist_all(&h, typed);
        unwatch(ctx.worker);
        ctx.st.evaluations += 1;
        ctx.st.count("builder-histories");
        if let Some(f) = f {
            let (kind, tag) = (f.kind.clone(), f.tag.clone());
            let calls = shrink_vec(&h.calls, &mut |cs| {
                let hh = Hist { ty: h.ty.clone(), name: h.name.clone(), calls: cs.to_vec() };
                exercise_hist_all(&hh, typed).map_or(false, |g| g.kind == kind && g.tag == tag)
            });
            let hh = Hist { ty: h.ty.clone(), name: h.name.clone(), calls };
            let g = exercise_hist_all(&hh, typed).unwrap_or(f);
            ctx.st.violation("C06.panic", format!("C06.panic:{}:{}", g.kind, g.tag), g.detail, json!({"kind": "history", "typed": typed, "history": hh}));
        }
        if i % 64 == 0 {
            documented_panics(ctx, &mut r);
        }
    }
    // name rules and combined names with hostile text (byte-offset arithmetic lives there)
    let mut r = ctx.rng("c06.names");
    for i in 0..ctx.share(150_000, 4_000_000) {
        let h = super::values::name_hist(&mut r);
        watch(ctx.worker, GEN_HIST, 2_000_000 + i);
        let mut f = exercise_hist_all(&h, true);
        // the same name through the parser, percent-encoded
        let enc: String = h.name.bytes().map(|b| format!("%{b:02X}")).collect();
        let s = format!("pkg:{}/g/{enc}", h.ty);
        if f.is_none() {
            f = exercise_string(&s).1;
        }
        // and as a combined name with separators at hostile places
        let mut comb = gen::mixed_string(&mut r, 0, 12, 50);
        for _ in 0..r.below(4) {
            let mut pos = r.below(comb.len() + 1);
            while !comb.is_char_boundary(pos) {
                pos -= 1;
            }
            comb.insert(pos, *r.pick(&['/', ':']));
        }
        if f.is_none() {
            if let Out::Panic(m) = guard("builder_with_combined_name", || {
                for t in exec::ALL_TYPES {
                    if let Ok(p) = purl::Purl::builder_with_combined_name(t, comb.as_str()).build() {
                        let _ = p.combined_name().len() + p.to_string().len();
                    }
                }
            }) {
                let loc = m.rsplit(" @ ").next().unwrap_or("?").to_string();
                f = Some(Fail::tagged("panicked", loc, format!("builder_with_combined_name / combined_name on {comb:?}: {m}")));
            }
        }
        unwatch(ctx.worker);
        ctx.st.evaluations += 3;
        ctx.st.count("name-rule-and-combined-name-cases");
        if let Some(f) = f {
            ctx.st.violation("C06.panic", format!("C06.panic:{}:{}", f.kind, f.tag), f.detail, json!({"kind": "names", "history": h, "string": s, "combined": comb}));
        }
    }
    // qualifier-collection histories with hostile keys and values
    let mut r = ctx.rng("c06.g5");
    for i in 0..ctx.share(20_000, 600_000) {
        let pool: Vec<String> = (0..r.range(1, 5)).map(|_| crate::spell::gen_key(&mut r)).collect();
        let n = r.range(10, 120);
        let ops: Vec<QOp> = (0..n).map(|_| c11_rand_op(&mut r, &pool)).collect();
        watch(ctx.worker, GEN_QUAL, i);
        let (documented, f) = exercise_qops(&ops);
        unwatch(ctx.worker);
        ctx.st.evaluations += 1;
        ctx.st.add("qualifier-operations", ops.len() as u64);
        ctx.st.add("documented-panic:index-absent", documented);
        if let Some(f) = f {
            let (kind, tag) = (f.kind.clone(), f.tag.clone());
            let min = shrink_vec(&ops, &mut |cs| exercise_qops(cs).1.map_or(false, |g| g.kind == kind && g.tag == tag));
            let g = exercise_qops(&min).1.unwrap_or(f);
            ctx.st.violation("C06.panic", format!("C06.panic:{}:{}", g.kind, g.tag), g.detail, json!({"kind": "qops", "ops": min}));
        }
    }
    // checksum texts: arbitrary, structured, empty
    let mut r = ctx.rng("c06.cs");
    for i in 0..ctx.share(120_000, 4_000_000) {
        let text = match r.below(5) {
            0 => gen::mixed_string(&mut r, 0, 30, 60),
            1 => String::new(),
            2 => {
                let n = r.below(6);
                (0..n).map(|_| format!("{}:{}", gen::mixed_string(&mut r, 0, 5, 40), gen::mixed_string(&mut r, 0, 8, 10))).collect::<Vec<_>>().join(",")
            },
            _ => {
                let e = crate::spell::gen_checksum(&mut r, 6);
                e.iter().map(|(a, b)| format!("{a}:{}", hex::encode(b))).collect::<Vec<_>>().join(",")
            },
        };
        watch(ctx.worker, GEN_CS, i);
        let f = exercise_checksum_text(&text);
        unwatch(ctx.worker);
        ctx.st.evaluations += 1;
        ctx.st.count("checksum-texts");
        if i % 8 == 0 {
            // the empty typed checksum: serialise, remove from, iterate, put into a builder
            match guard("empty Checksum", || {
                let mut c = Checksum::default();
                c.remove("sha1");
                let n = c.iter().count() + c.algorithms().count();
                let t = SmallString::try_from(c.clone()).map(|t| t.len());
                let b = GenericPurlBuilder::new("t".to_string(), "n").try_with_typed_qualifier(Some(c)).map(|b| b.build().map(|p| p.to_string()));
                (n, t.is_ok(), b.is_ok())
            }) {
                Out::Panic(m) => {
                    let loc = m.rsplit(" @ ").next().unwrap_or("?").to_string();
                    ctx.st.violation("C06.panic", format!("C06.panic:panicked:{loc}"), format!("operations on Checksum::default() panicked: {m}"), json!({"kind": "empty-checksum"}));
                },
                _ => ctx.st.count("empty-checksum-serialised"),
            }
        }
        if let Some(f) = f {
            let (kind, tag) = (f.kind.clone(), f.tag.clone());
            let min = shrink_str(&text, &mut |c| exercise_checksum_text(c).map_or(false, |g| g.kind == kind && g.tag == tag));
            let g = exercise_checksum_text(&min).unwrap_or(f);
            ctx.st.violation("C06.panic", format!("C06.panic:{}:{}", g.kind, g.tag), g.detail, json!({"kind": "checksum-text", "input": min}));
        }
    }
    if ctx.worker == 0 {
        ctx.st.set_insert("cpu-bound-seconds", CPU_BOUND_S.to_string());
    }
}

fn c11_rand_op(r: &mut Rng, pool: &[String]) -> QOp {
    // hostile variant of C11's generator: keys and values from the hostile pool more often
    let k = if r.chance(1, 3) { gen::mixed_string(r, 0, 6, 70) } else { r.pick(pool).clone() };
    let v = gen::mixed_string(r, 0, 10, 50);
    match r.below(16) {
        0..=2 => QOp::Insert(k, v),
        3 => QOp::Remove(k),
        4 => QOp::Index(k),
        5 => QOp::IndexMut(k, v),
        6 => QOp::EntryOrInsert(k, v),
        7 => QOp::EntryAndModifyOrInsert(k, v.clone(), v),
        8 => QOp::OccRemoveEntry(k),
        9 => QOp::VacInsert(k, v),
        10 => QOp::TryInsertChecksum(hist::rand_cs_entries(r)),
        11 => QOp::TryGetChecksum,
        12 => QOp::IterInterleaved(r.next() as u32),
        13 if r.coin() => QOp::CloneFrom((0..r.below(6)).map(|_| (gen::mixed_string(r, 0, 4, 30), gen::mixed_string(r, 0, 4, 30))).collect()),
        13 => QOp::RetainMut(c11::Pred::KeyNe(k), v),
        14 => QOp::TryFromIter((0..r.below(5)).map(|_| (gen::mixed_string(r, 0, 4, 30), gen::mixed_string(r, 0, 4, 30))).collect()),
        _ => QOp::GetMut(k, v),
    }
}

pub fn replay(_monitor: &str, case: &Value) -> Result<Option<Fail>, String> {
    match str_field(case, "kind")? {
        "string" => Ok(exercise_string(str_field(case, "input")?).1),
        "regen" => {
            let g = case.get("gen").and_then(|v| v.as_u64()).ok_or("no gen")?;
            let idx = case.get("idx").and_then(|v| v.as_u64()).ok_or("no idx")?;
            let seed = case.get("seed").and_then(|v| v.as_u64()).unwrap_or(1);
            let worker = case.get("worker").and_then(|v| v.as_u64()).unwrap_or(0) as usize;
            let nworkers = case.get("nworkers").and_then(|v| v.as_u64()).unwrap_or(16) as usize;
            let quick = case.get("tier").and_then(|v| v.as_str()) != Some("thorough");
            let s = match g {
                GEN_G1 => {
                    let mut found = None;
                    let mut f = |i: u64, s: &str| {
                        if i == idx {
                            found = Some(s.to_string());
                        }
                    };
                    gen::for_each_g1(quick, worker, nworkers, &mut f);
                    found.ok_or("index not in the token language")?
                },
                GEN_G10 => g10_string(seed, worker, idx, &gen::load_corpus().0),
                GEN_SOUP => soup_string(seed, worker, idx),
                GEN_LARGE => large_catalogue().into_iter().nth(idx as usize).map(|x| x.1).ok_or("no such large input")?,
                _ => return Err("only string generators can be regenerated; re-run the check".into()),
            };
            let t0 = thread_cpu_ns();
            let (_, f) = exercise_string(&s);
            let cpu = (thread_cpu_ns() - t0) / 1_000_000_000;
            if cpu > CPU_BOUND_S {
                return Ok(Some(Fail::tagged("cpu-bound", "", format!("{} bytes took {cpu} s of thread CPU time", s.len()))));
            }
            Ok(f)
        },
        "history" => {
            let h: Hist = serde_json::from_value(case.get("history").cloned().unwrap_or(Value::Null)).map_err(|e| e.to_string())?;
            Ok(exercise_hist_all(&h, case.get("typed").and_then(|v| v.as_bool()).unwrap_or(false)))
        },
        "qops" => {
            let ops: Vec<QOp> = serde_json::from_value(case.get("ops").cloned().unwrap_or(Value::Null)).map_err(|e| e.to_string())?;
            Ok(exercise_qops(&ops).1)
        },
        "checksum-text" => Ok(exercise_checksum_text(str_field(case, "input")?)),
        "empty-checksum" => Ok(match guard("empty Checksum", || SmallString::try_from(Checksum::default()).map(|t| t.len())) {
            Out::Panic(m) => Some(Fail::new("panicked", m)),
            _ => None,
        }),
        "documented" => Ok(None),
        "names" => {
            let h: Hist = serde_json::from_value(case.get("history").cloned().unwrap_or(Value::Null)).map_err(|e| e.to_string())?;
            let comb = str_field(case, "combined")?.to_string();
            let mut f = exercise_hist_all(&h, true).or_else(|| exercise_string(str_field(case, "string").unwrap_or("")).1);
            if f.is_none() {
                if let Out::Panic(m) = guard("builder_with_combined_name", || {
                    for t in exec::ALL_TYPES {
                        if let Ok(p) = purl::Purl::builder_with_combined_name(t, comb.as_str()).build() {
                            let _ = p.combined_name().len();
                        }
                    }
                }) {
                    f = Some(Fail::new("panicked", m));
                }
            }
            Ok(f)
        },
        o => Err(format!("unknown case kind {o}")),
    }
}

pub fn finish() {
    DONE.store(true, Ordering::Relaxed);
}
