//! C03 — the canonical string has exactly the documented shape and escaping.
//!
//! Refuted by: `p.to_string() != R2(accessors of p)`; a byte outside 0x21–0x7E in the output;
//! a `%` not followed by two upper-case hex digits. R2 is fed only from the public accessors.

use std::borrow::Cow;
use std::fmt::Debug;
use std::str::FromStr;

use purl::{GenericPurl, GenericPurlBuilder, PackageType, PurlShape, SmallString};
use serde_json::{json, Value};

use super::{str_field, Fail};
use crate::exec::{self, run_hist};
use crate::gen;
use crate::hist::{self, Hist};
use crate::model::{must_escape, Pos};
use crate::obs::{self, Ctx, Out, Snap, Tier};
use crate::rng::fnv;
use crate::shrink::{shrink_str, shrink_vec, sig_of};
use crate::spell;

pub const RULE: &str = "a case is one PURL value (built or parsed) whose to_string() is compared with the independent renderer fed from its accessors; non-trivial = the canonical string contains at least one %XX escape or at least two optional parts; distinct by hash of the canonical string";

pub fn requirements(_tier: Tier) -> Vec<(&'static str, u64)> {
    vec![
        ("exhaustive:scalar-x-position", 5 * 1_112_064),
        ("exhaustive:ascii-pairs-x-position", 5 * 128 * 128),
        ("exhaustive:key-chars", 39),
        ("set:escaped-in-namespace", 44),
        ("set:escaped-in-name", 45),
        ("set:escaped-in-version", 44),
        ("set:escaped-in-qualifier-value", 43),
        ("set:escaped-in-subpath", 42),
        ("values:parsed", 10_000),
        ("values:built", 10_000),
        ("typed-values", 1_000),
        ("escape-next-to-long-plain-run", 2_000),
        ("built:after-observe-and-single-change", 10_000),
    ]
}

/// The oracle for one PURL value.
pub fn judge_value<T: PurlShape>(p: &GenericPurl<T>) -> (Option<String>, Option<Fail>) {
    let snap = Snap::of(p);
    let got = match obs::show(p) {
        Out::Ok(s) => s,
        o => return (None, Some(Fail::new("format-panicked", format!("to_string() of {snap:?}: {}", o.kind())))),
    };
    // The documented shape lists the pairs in ascending key order and the type in lower case,
    // whatever order / case the accessors happen to report.
    let mut shaped = snap.clone();
    shaped.quals.sort_by(|a, b| a.0.as_bytes().cmp(b.0.as_bytes()));
    shaped.ty = crate::model::ascii_lower(&snap.ty);
    let want = shaped.render();
    if got != want {
        // name the first differing byte for the signature
        let i = got.bytes().zip(want.bytes()).position(|(a, b)| a != b).unwrap_or(got.len().min(want.len()));
        let near = |s: &str| s.get(i.saturating_sub(0)..).map(|t| t.chars().take(3).collect::<String>()).unwrap_or_default();
        return (
            Some(got.clone()),
            Some(Fail::tagged(
                "render-mismatch",
                format!("got {:?} want {:?}", near(&got).chars().next().map(String::from).unwrap_or_default(), near(&want)),
                format!("to_string() = {got:?} but the documented shape for accessors {snap:?} is {want:?} (first difference at byte {i}: got {:?}, want {:?})", near(&got), near(&want)),
            )),
        );
    }
    if let Some(b) = got.bytes().find(|b| !(0x21..=0x7E).contains(b)) {
        return (Some(got.clone()), Some(Fail::new("not-printable-ascii", format!("byte 0x{b:02X} in {got:?}"))));
    }
    match obs::show_with_flags(p, &got) {
        Out::Ok(None) => {},
        Out::Ok(Some((spec, o))) => {
            return (
                Some(got.clone()),
                Some(Fail::tagged("format-flags-applied-to-a-part", spec, format!("format spec {spec} gives {o:?}; the plain text is {got:?} (flags may be ignored, pad the whole text or cut it, not change a part of it)"))),
            )
        },
        o => return (Some(got.clone()), Some(Fail::new("format-panicked", format!("formatting {snap:?} with flags: {}", o.kind())))),
    }
    let gb = got.as_bytes();
    for (i, b) in gb.iter().enumerate() {
        if *b == b'%' {
            let ok = i + 2 < gb.len() && gb.get(i + 1).map_or(false, |h| h.is_ascii_digit() || (b'A'..=b'F').contains(h)) && gb.get(i + 2).map_or(false, |h| h.is_ascii_digit() || (b'A'..=b'F').contains(h));
            if !ok {
                return (Some(got.clone()), Some(Fail::new("escape-not-upper-hex", format!("{got:?} at byte {i}"))));
            }
        }
    }
    (Some(got), None)
}

const POS: [(Pos, &str, &str); 5] = [
    (Pos::Namespace, "namespace", "escaped-in-namespace"),
    (Pos::Name, "name", "escaped-in-name"),
    (Pos::Version, "version", "escaped-in-version"),
    (Pos::Qual, "qualifier-value", "escaped-in-qualifier-value"),
    (Pos::Subpath, "subpath", "escaped-in-subpath"),
];

/// Build the PURL holding `text` alone in position `pos`.
pub fn place(pos: usize, text: &str) -> Out<GenericPurl<String>> {
    let b = GenericPurlBuilder::new("t".to_string(), if pos == 1 { text } else { "n" });
    let b = match pos {
        0 => b.with_namespace(text),
        1 => b,
        2 => b.with_version(text),
        3 => match obs::guard_res("with_qualifier", || b.with_qualifier("k", text)) {
            Out::Ok(b) => b,
            Out::Err(e) => return Out::Err(e),
            Out::Panic(p) => return Out::Panic(p),
        },
        _ => b.with_subpath(text),
    };
    obs::build(b)
}

fn judge_placed(pos: usize, text: &str) -> Option<Fail> {
    match place(pos, text) {
        Out::Ok(p) => judge_value(&p).1,
        Out::Err(_) if text.is_empty() && pos == 1 => None,
        o => Some(Fail::new("build-failed", format!("building a PURL with {text:?} as {} gave {}", POS[pos].1, o.kind()))),
    }
}

fn report_placed(ctx: &mut Ctx, pos: usize, text: &str, f: Fail) {
    let kind = f.kind.clone();
    let min = shrink_str(text, &mut |c| !c.is_empty() && judge_placed(pos, c).map_or(false, |g| g.kind == kind));
    let g = judge_placed(pos, &min).unwrap_or(f);
    ctx.st.violation(
        "C03.render",
        g.signature("C03.render", &format!("{}:{min}", POS[pos].1)),
        g.detail,
        json!({"kind": "placed", "position": pos, "text": min}),
    );
}

fn exhaustive(ctx: &mut Ctx) {
    // every Unicode scalar value alone in each of the five positions
    let mut idx = 0u64;
    for cp in 0u32..=0x10FFFF {
        let Some(c) = char::from_u32(cp) else { continue };
        idx += 1;
        if !ctx.mine(idx) {
            continue;
        }
        let text = c.to_string();
        for pos in 0..5 {
            ctx.st.evaluations += 1;
            ctx.st.count("exhaustive:scalar-x-position");
            match place(pos, &text) {
                Out::Ok(p) => {
                    let (s, f) = judge_value(&p);
                    if let Some(s) = &s {
                        if cp < 128 {
                            let esc = format!("%{cp:02X}");
                            // strip the fixed frame so that only the placed character is looked at
                            if s.contains(&esc) {
                                ctx.st.set_insert(POS[pos].2, format!("0x{cp:02X}"));
                                if !must_escape(cp as u8, POS[pos].0) {
                                    // R2 would already have flagged this; double bookkeeping only
                                }
                            }
                        }
                        if s.contains('%') {
                            ctx.st.nontrivial(fnv(s.as_bytes()));
                        }
                    }
                    if let Some(f) = f {
                        report_placed(ctx, pos, &text, f);
                    }
                },
                o => {
                    let f = Fail::new("build-failed", format!("building a PURL with {text:?} as {} gave {}", POS[pos].1, o.kind()));
                    report_placed(ctx, pos, &text, f);
                },
            }
        }
    }
    // every ordered pair of ASCII characters in each position
    let mut idx = 0u64;
    for a in 0u8..128 {
        for b in 0u8..128 {
            idx += 1;
            if !ctx.mine(idx) {
                continue;
            }
            let text: String = [a as char, b as char].iter().collect();
            for pos in 0..5 {
                ctx.st.evaluations += 1;
                ctx.st.count("exhaustive:ascii-pairs-x-position");
                if let Some(f) = judge_placed(pos, &text) {
                    report_placed(ctx, pos, &text, f);
                }
            }
        }
    }
    // thorough: every ordered triple over the ASCII characters with a role in the grammar or
    // in URL escaping, in each position (context-dependent escaping would show here)
    if !ctx.quick() {
        const T: &[u8] = b"/@?#&=:,%+ \"<>`{}\\|^~a.A0";
        let mut idx = 0u64;
        let mut n = 0u64;
        for a in T {
            for b in T {
                for c in T {
                    idx += 1;
                    n += 1;
                    if !ctx.mine(idx) {
                        continue;
                    }
                    let text: String = [*a as char, *b as char, *c as char].iter().collect();
                    for pos in 0..5 {
                        ctx.st.evaluations += 1;
                        ctx.st.count("exhaustive:separator-triples-x-position");
                        if let Some(f) = judge_placed(pos, &text) {
                            report_placed(ctx, pos, &text, f);
                        }
                    }
                }
            }
        }
        if ctx.worker == 0 {
            ctx.st.exhaustive.push(json!({"name": format!("every ordered triple over {} grammar / escaping characters in each of the 5 positions", T.len()), "size": n * 5, "completed": true}));
        }
    }
    // escapes next to long plain runs (buffered / chunked writers show at their buffer sizes)
    if ctx.worker == 0 {
        for pos in 0..5 {
            for esc in ["@", " ", "é", "%", "😀"] {
                for n in [22usize, 23, 24, 31, 32, 33, 63, 64, 65, 66, 127, 128, 129, 255, 256, 257, 1000, 4096] {
                    let run = "a".repeat(n);
                    for text in [format!("{esc}{run}"), format!("{run}{esc}"), format!("{esc}{run}{esc}"), format!("{run}{esc}{run}"), run.clone()] {
                        ctx.st.evaluations += 1;
                        ctx.st.count("escape-next-to-long-plain-run");
                        if let Some(f) = judge_placed(pos, &text) {
                            report_placed(ctx, pos, &text, f);
                        }
                    }
                }
            }
        }
    }
    // every qualifier-key character (keys are never escaped, and are lower-cased)
    if ctx.worker == 0 {
        for c in "abcdefghijklmnopqrstuvwxyz0123456789._-".chars() {
            ctx.st.evaluations += 1;
            ctx.st.count("exhaustive:key-chars");
            let key = format!("k{c}{}", c.to_ascii_uppercase());
            let b = GenericPurlBuilder::new("t".to_string(), "n");
            match obs::guard_res("with_qualifier", || b.with_qualifier(key.as_str(), "v")).map(obs::build) {
                Out::Ok(Out::Ok(p)) => {
                    if let Some(f) = judge_value(&p).1 {
                        ctx.st.violation("C03.render", format!("C03.render:{}:key:{c}", f.kind), f.detail, json!({"kind": "key", "key": key}));
                    }
                },
                o => ctx.st.violation(
                    "C03.render",
                    format!("C03.render:key-refused:{c}"),
                    format!("valid key {key:?} refused: {}", match o { Out::Ok(i) => i.kind(), o => o.kind() }),
                    json!({"kind": "key", "key": key}),
                ),
            }
        }
        ctx.st.exhaustive.push(json!({"name": "every Unicode scalar value alone in each of the 5 component positions (builder, String)", "size": 5 * 1_112_064u64, "completed": true}));
        ctx.st.exhaustive.push(json!({"name": "every ordered pair of ASCII characters in each of the 5 positions", "size": 5 * 128 * 128, "completed": true}));
        ctx.st.exhaustive.push(json!({"name": "every valid qualifier-key character, both cases", "size": 39, "completed": true}));
    }
}

fn note_value(ctx: &mut Ctx, canon: &Option<String>, snap_parts: usize) {
    if let Some(c) = canon {
        if c.contains('%') || snap_parts >= 2 {
            ctx.st.nontrivial(fnv(c.as_bytes()));
        }
    }
}

fn parts_of<T: PurlShape>(p: &GenericPurl<T>) -> usize {
    usize::from(p.namespace().is_some()) + usize::from(p.version().is_some()) + usize::from(!p.qualifiers().is_empty()) + usize::from(p.subpath().is_some())
}

fn judge_parsed<T>(s: &str) -> Option<Fail>
where
    T: FromStr + PurlShape,
    <T as PurlShape>::Error: From<<T as FromStr>::Err> + Debug,
{
    match obs::parse::<T>(s) {
        Out::Ok(p) => judge_value(&p).1,
        _ => None,
    }
}

fn parsed<T>(ctx: &mut Ctx, inst: &'static str, s: &str)
where
    T: FromStr + PurlShape,
    <T as PurlShape>::Error: From<<T as FromStr>::Err> + Debug,
{
    if let Out::Ok(p) = obs::parse::<T>(s) {
        ctx.st.evaluations += 1;
        ctx.st.count("values:parsed");
        if inst == "Purl" {
            ctx.st.count("typed-values");
        }
        let (c, f) = judge_value(&p);
        note_value(ctx, &c, parts_of(&p));
        ctx.st.sample(|| json!({"source": "parsed", "instantiation": inst, "input": s, "to_string": c, "renderer": "identical"}));
        if let Some(f) = f {
            let kind = f.kind.clone();
            let min = shrink_str(s, &mut |c| judge_parsed::<T>(c).map_or(false, |g| g.kind == kind));
            let g = judge_parsed::<T>(&min).unwrap_or(f);
            ctx.st.violation(
                "C03.render",
                g.signature("C03.render", &min),
                g.detail,
                json!({"kind": "parsed", "instantiation": inst, "input": min}),
            );
        }
    }
}

pub fn judge_hist<'a, T>(h: &'a Hist, mk: &dyn Fn(&'a str) -> Option<T>) -> Option<Fail>
where
    T: PurlShape + Clone + crate::exec::Reparse,
    T::Error: Debug,
{
    let run = run_hist(h, mk)?;
    let b = run.builder?;
    match obs::build(b) {
        Out::Ok(p) => judge_value(&p).1,
        _ => None,
    }
}

fn built<'a, T>(ctx: &mut Ctx, tp: &'static str, h: &'a Hist, mk: &dyn Fn(&'a str) -> Option<T>)
where
    T: PurlShape + Clone + crate::exec::Reparse,
    T::Error: Debug,
{
    let Some(run) = run_hist(h, mk) else { return };
    let Some(b) = run.builder else { return };
    if let Out::Ok(p) = obs::build(b) {
        ctx.st.evaluations += 1;
        ctx.st.count("values:built");
        if tp == "PackageType" {
            ctx.st.count("typed-values");
        }
        let (c, f) = judge_value(&p);
        note_value(ctx, &c, parts_of(&p));
        if let Some(f) = f {
            // shrink the history with an owned copy per candidate (String type parameter semantics)
            let kind = f.kind.clone();
            let calls = shrink_vec(&h.calls, &mut |cs| {
                let hh = Hist { ty: h.ty.clone(), name: h.name.clone(), calls: cs.to_vec() };
                judge_hist_dyn(tp, &hh).map_or(false, |g| g.kind == kind)
            });
            let hh = Hist { ty: h.ty.clone(), name: h.name.clone(), calls };
            let g = judge_hist_dyn(tp, &hh).unwrap_or(f);
            ctx.st.violation(
                "C03.render",
                g.signature("C03.render", &format!("{:?}", hh.calls)),
                g.detail,
                json!({"kind": "built", "type_parameter": tp, "history": hh}),
            );
        }
    }
}

pub fn judge_hist_dyn(tp: &str, h: &Hist) -> Option<Fail> {
    match tp {
        "String" => judge_hist::<String>(h, &exec::mk_string),
        "SmallString" => judge_hist::<SmallString>(h, &exec::mk_small),
        "Cow::Owned" => judge_hist::<Cow<str>>(h, &exec::mk_cow_owned),
        "Cow::Borrowed" => judge_hist::<Cow<str>>(h, &exec::mk_cow_borrowed),
        "PackageType" => judge_hist::<PackageType>(h, &exec::mk_typed),
        _ => None,
    }
}

pub fn run(ctx: &mut Ctx) {
    exhaustive(ctx);
    // parsed values: legal spellings and mutated corpus
    let mut r = ctx.rng("c03.g2");
    for _ in 0..ctx.share(100_000, 3_000_000) {
        let known = r.chance(1, 3);
        let t = spell::gen_tuple(&mut r, known);
        let mask = spell::random_mask(&mut r);
        let s = spell::spell(&mut r, &t, mask).assemble();
        parsed::<String>(ctx, "String", &s);
        parsed::<SmallString>(ctx, "SmallString", &s);
        if known {
            parsed::<PackageType>(ctx, "Purl", &s);
        }
    }
    let (corpus, _) = gen::load_corpus();
    let mut r = ctx.rng("c03.g10");
    for _ in 0..ctx.share(100_000, 3_000_000) {
        let s = gen::mutate(&mut r, &corpus);
        parsed::<String>(ctx, "String", &s);
        parsed::<PackageType>(ctx, "Purl", &s);
    }
    // built values: random histories for every built-in type parameter
    let mut r = ctx.rng("c03.g4");
    for _ in 0..ctx.share(150_000, 4_000_000) {
        let h = hist::rand_hist(&mut r, false);
        built::<String>(ctx, "String", &h, &exec::mk_string);
        built::<SmallString>(ctx, "SmallString", &h, &exec::mk_small);
        built::<Cow<str>>(ctx, "Cow::Owned", &h, &exec::mk_cow_owned);
        built::<Cow<str>>(ctx, "Cow::Borrowed", &h, &exec::mk_cow_borrowed);
        let h = hist::rand_hist(&mut r, true);
        built::<PackageType>(ctx, "PackageType", &h, &exec::mk_typed);
    }
    // observe / take apart / change one thing / put together (see hist::stale_hist)
    let mut r = ctx.rng("c03.stale");
    for _ in 0..ctx.share(60_000, 1_500_000) {
        let h = hist::stale_hist(&mut r, false);
        ctx.st.count("built:after-observe-and-single-change");
        built::<String>(ctx, "String", &h, &exec::mk_string);
        built::<SmallString>(ctx, "SmallString", &h, &exec::mk_small);
        let h = hist::stale_hist(&mut r, true);
        built::<PackageType>(ctx, "PackageType", &h, &exec::mk_typed);
    }
}

pub fn replay(_monitor: &str, case: &Value) -> Result<Option<Fail>, String> {
    match str_field(case, "kind")? {
        "placed" => {
            let pos = case.get("position").and_then(|v| v.as_u64()).ok_or("no position")? as usize;
            Ok(judge_placed(pos, str_field(case, "text")?))
        },
        "key" => {
            let key = str_field(case, "key")?;
            let b = GenericPurlBuilder::new("t".to_string(), "n");
            match obs::guard_res("with_qualifier", || b.with_qualifier(key, "v")).map(obs::build) {
                Out::Ok(Out::Ok(p)) => Ok(judge_value(&p).1),
                _ => Ok(Some(Fail::new("key-refused", key))),
            }
        },
        "parsed" => {
            let s = str_field(case, "input")?;
            Ok(match str_field(case, "instantiation")? {
                "String" => judge_parsed::<String>(s),
                "SmallString" => judge_parsed::<SmallString>(s),
                "Purl" => judge_parsed::<PackageType>(s),
                o => return Err(format!("unknown instantiation {o}")),
            })
        },
        "built" => {
            let h: Hist = serde_json::from_value(case.get("history").cloned().unwrap_or(Value::Null)).map_err(|e| e.to_string())?;
            Ok(judge_hist_dyn(str_field(case, "type_parameter")?, &h))
        },
        o => Err(format!("unknown case kind {o}")),
    }
}
