//! One monitor per property (DESIGN.md section 6).

use std::borrow::Cow;

use purl::{GenericPurl, PackageType, SmallString};
use serde_json::Value;

use crate::obs::{Ctx, Tier};

pub mod c01;
pub mod c02;
pub mod c03;
pub mod c04;
pub mod c05;
pub mod c06;
pub mod c07;
pub mod c08;
pub mod c09;
pub mod c10;
pub mod c11;
pub mod c12;
pub mod c13;
pub mod c14;
pub mod c15;
pub mod c16;
pub mod c18;
pub mod c19;
pub mod values;

pub type PString = GenericPurl<String>;
pub type PSmall = GenericPurl<SmallString>;
pub type PTyped = GenericPurl<PackageType>;
pub type PCow = GenericPurl<Cow<'static, str>>;

/// A refutation found by an oracle: `kind` names the clause that failed (stable, used in
/// signatures), `detail` is for humans.
#[derive(Clone, Debug)]
pub struct Fail {
    pub kind: String,
    pub detail: String,
    /// Optional class of the failure that is independent of the witness (used in the
    /// signature instead of the witness text when present).
    pub tag: String,
}

impl Fail {
    pub fn new(kind: impl Into<String>, detail: impl Into<String>) -> Fail {
        Fail { kind: kind.into(), detail: detail.into(), tag: String::new() }
    }

    pub fn tagged(kind: impl Into<String>, tag: impl Into<String>, detail: impl Into<String>) -> Fail {
        Fail { kind: kind.into(), detail: detail.into(), tag: tag.into() }
    }

    /// Signature `monitor:kind:tag-or-witness`.
    pub fn signature(&self, monitor: &str, witness: &str) -> String {
        if self.tag.is_empty() {
            format!("{monitor}:{}:{}", self.kind, crate::shrink::sig_of(witness))
        } else {
            format!("{monitor}:{}:{}", self.kind, self.tag)
        }
    }
}

pub const PROPS: &[&str] = &[
    "C01", "C02", "C03", "C04", "C05", "C06", "C07", "C08", "C09", "C10", "C11", "C12", "C13", "C14", "C15", "C16",
    "C18", "C19",
];

pub fn run(prop: &str, ctx: &mut Ctx) {
    match prop {
        "C01" => c01::run(ctx),
        "C02" => c02::run(ctx),
        "C03" => c03::run(ctx),
        "C04" => c04::run(ctx),
        "C05" => c05::run(ctx),
        "C06" => c06::run(ctx),
        "C07" => c07::run(ctx),
        "C08" => c08::run(ctx),
        "C09" => c09::run(ctx),
        "C10" => c10::run(ctx),
        "C11" => c11::run(ctx),
        "C12" => c12::run(ctx),
        "C13" => c13::run(ctx),
        "C14" => c14::run(ctx),
        "C15" => c15::run(ctx),
        "C16" => c16::run(ctx),
        "C18" => c18::run(ctx),
        "C19" => c19::run(ctx),
        _ => panic!("unknown property {prop}"),
    }
}

/// Minimum observations (counter name, minimum over all workers) below which the run is
/// inconclusive rather than `held`.
pub fn requirements(prop: &str, tier: Tier) -> Vec<(&'static str, u64)> {
    match prop {
        "C01" => c01::requirements(tier),
        "C02" => c02::requirements(tier),
        "C03" => c03::requirements(tier),
        "C04" => c04::requirements(tier),
        "C05" => c05::requirements(tier),
        "C06" => c06::requirements(tier),
        "C07" => c07::requirements(tier),
        "C08" => c08::requirements(tier),
        "C09" => c09::requirements(tier),
        "C10" => c10::requirements(tier),
        "C11" => c11::requirements(tier),
        "C12" => c12::requirements(tier),
        "C13" => c13::requirements(tier),
        "C14" => c14::requirements(tier),
        "C15" => c15::requirements(tier),
        "C16" => c16::requirements(tier),
        "C18" => c18::requirements(tier),
        "C19" => c19::requirements(tier),
        _ => vec![],
    }
}

/// The rule by which `distinct_nontrivial` is counted for this property.
pub fn rule(prop: &str) -> &'static str {
    match prop {
        "C01" => c01::RULE,
        "C02" => c02::RULE,
        "C03" => c03::RULE,
        "C04" => c04::RULE,
        "C05" => c05::RULE,
        "C06" => c06::RULE,
        "C07" => c07::RULE,
        "C08" => c08::RULE,
        "C09" => c09::RULE,
        "C10" => c10::RULE,
        "C11" => c11::RULE,
        "C12" => c12::RULE,
        "C13" => c13::RULE,
        "C14" => c14::RULE,
        "C15" => c15::RULE,
        "C16" => c16::RULE,
        "C18" => c18::RULE,
        "C19" => c19::RULE,
        _ => "",
    }
}

/// Re-run one recorded witness against the current tree. Returns the failure, if it still fails.
pub fn replay(prop: &str, monitor: &str, case: &Value) -> Result<Option<Fail>, String> {
    match prop {
        "C01" => c01::replay(monitor, case),
        "C02" => c02::replay(monitor, case),
        "C03" => c03::replay(monitor, case),
        "C04" => c04::replay(monitor, case),
        "C05" => c05::replay(monitor, case),
        "C06" => c06::replay(monitor, case),
        "C07" => c07::replay(monitor, case),
        "C08" => c08::replay(monitor, case),
        "C09" => c09::replay(monitor, case),
        "C10" => c10::replay(monitor, case),
        "C11" => c11::replay(monitor, case),
        "C12" => c12::replay(monitor, case),
        "C13" => c13::replay(monitor, case),
        "C14" => c14::replay(monitor, case),
        "C15" => c15::replay(monitor, case),
        "C16" => c16::replay(monitor, case),
        "C18" => c18::replay(monitor, case),
        "C19" => c19::replay(monitor, case),
        _ => Err(format!("unknown property {prop}")),
    }
}

pub fn str_field<'a>(case: &'a Value, k: &str) -> Result<&'a str, String> {
    case.get(k).and_then(|v| v.as_str()).ok_or_else(|| format!("replay case lacks string field {k:?}"))
}
