//! Workload generators that do not depend on the library: hostile character pool, random
//! strings, the bounded token language G1, the conformance corpus and its mutations G10,
//! large inputs G11.  All deterministic functions of the PRNG handed in.

use crate::rng::Rng;

/// ASCII characters with a role in the grammar or in URL escaping.
pub const SEPARATORS: &[char] = &['/', '@', '?', '#', '&', '=', ':', ',', '%', '+'];

pub const ASCII_ODD: &[char] = &[
    ' ', '"', '<', '>', '`', '{', '}', '\\', '|', '^', '~', '[', ']', '\'', '!', '*', '(', ')', ';', '$', '.',
    '-', '_', '\0', '\t', '\n', '\r', '\x7f', '\x01', '\x1f',
];

/// Non-ASCII of every UTF-8 length, incl. case-mapping oddities (title-case letters, sigma,
/// Kelvin sign, long s, dotless i, dotted capital I, full-width, combining, RTL, U+FFFD,
/// astral).
pub const NON_ASCII: &[char] = &[
    'é', 'É', 'ß', 'Æ', 'æ', 'İ', 'ı', 'ǅ', 'ǆ', 'Ǆ', 'ǈ', 'ǋ', 'ǲ', 'ᾈ', 'ᾘ', 'ᾨ', 'ᾼ', 'ῌ', 'ῼ', 'Σ', 'ς', 'σ',
    '\u{212A}', 'ſ', 'ｃ', 'Ｃ', '中', '\u{0301}', '\u{200F}', '\u{FFFD}', '😀', '\u{10FFFF}', '\u{80}',
    '\u{7FF}', '\u{800}', '\u{FFFF}', '\u{10000}', 'Ω', 'ω', 'Ⅷ', 'ⅷ', 'Ⓐ', '\u{FEFF}', '\u{200B}', '\u{A0}', '\u{2028}', '\u{AD}', 'Α', 'Ⱥ', 'ẞ',
];

/// The 31 scalar values with `to_lowercase() != self` although `is_uppercase()` is false.
pub const TITLECASE: &[char] = &[
    '\u{01C5}', '\u{01C8}', '\u{01CB}', '\u{01F2}', '\u{1F88}', '\u{1F89}', '\u{1F8A}', '\u{1F8B}', '\u{1F8C}',
    '\u{1F8D}', '\u{1F8E}', '\u{1F8F}', '\u{1F98}', '\u{1F99}', '\u{1F9A}', '\u{1F9B}', '\u{1F9C}', '\u{1F9D}',
    '\u{1F9E}', '\u{1F9F}', '\u{1FA8}', '\u{1FA9}', '\u{1FAA}', '\u{1FAB}', '\u{1FAC}', '\u{1FAD}', '\u{1FAE}',
    '\u{1FAF}', '\u{1FBC}', '\u{1FCC}', '\u{1FFC}',
];

pub const ALNUM: &[u8] = b"abcdefghijklmnopqrstuvwxyzABCDEFGHIJKLMNOPQRSTUVWXYZ0123456789";

pub const ESCAPE_LOOKALIKES: &[&str] = &["%41", "%2F", "%2f", "%zz", "%", "%2e", "%25", "%00", "%C3%A9", "%80"];

/// One hostile character.
/// A non-ASCII character whose low byte equals the ASCII byte `b` (U+01xx, U+04xx, U+4Exx):
/// code that truncates `char as u8` would take it for that ASCII character.
pub fn low_byte_alias(r: &mut Rng, b: u8) -> char {
    let hi = *r.pick(&[0x0100u32, 0x0400, 0x0600, 0x4E00, 0x1F600]);
    char::from_u32(hi + b as u32).unwrap_or('\u{12F}')
}

pub fn hostile_char(r: &mut Rng) -> char {
    if r.chance(1, 25) {
        let b = *r.pick(b"/@?#&=:,%+ .-_aA0");
        return low_byte_alias(r, b);
    }
    match r.below(100) {
        0..=34 => *r.pick(SEPARATORS),
        35..=59 => *r.pick(ASCII_ODD),
        60..=84 => *r.pick(NON_ASCII),
        85..=91 => *r.pick(TITLECASE),
        _ => {
            // arbitrary scalar value
            loop {
                let v = r.below(0x11_0000) as u32;
                if let Some(c) = char::from_u32(v) {
                    return c;
                }
            }
        },
    }
}

/// Multi-character tokens a random character stream practically never spells: syntax of
/// neighbouring formats (HTML entities, URLs, version ranges, extras, templates, shells) and
/// the vocabulary of the ecosystems (what a "helpful" special case would key on).
pub const DICTIONARY: &[&str] = &[
    "&amp;", "&lt;", "&gt;", "&quot;", "&#38;", "&#x26;", "&nbsp;", "amp;", "://", "git+https://", "https://e.x/p?q=1#f", "file:///", "user:pw@", ":8080", "%20", "%2F",
    "%25", "%252F", "%2B", "jar", "pom", "war", "sources", "javadoc", "tar.gz", "dll", "x86_64", "amd64", "i386", "noarch", "linux", "windows", "java", "ruby",
    "x86_64-linux", "v2", "/v2", "/v10", "@v2", "[extra]", "[a,b]", "[]", "+build.1", "-rc.1", "1.0.0", "==1.0", ">=1", "~1", "^1", "@scope", "@latest", "SNAPSHOT",
    "RELEASE", "latest", "${x}", "{{x}}", "$(x)", "`x`", "<x>", "';--", "\\", "\\n", "\r\n", "\t", "..", "../", "..\\", "./", "~", "*", "null", "None", "true", "NaN",
    "0x1F", "1e9", "-0", "golang.org/x", "github.com", "org.apache", "k8s.io", "index.js", "pkg:", "pkg:npm/a", "?a=b", "#a", "&a=b", ";a=b", "==", "a=b=c",
    "/vendor/", "vendor/", "node_modules/", "/internal/", "/src/", "/pkg/mod/", ".git", "/-/", "/+/", "gitlab.com", "bitbucket.org", "gopkg.in", "gopkg.in/yaml.v2",
    ":~:", ":~:text=a", "#:~:", "/./", "/../", "/.", "/..", "a/.", "a/..", "0x", "0X", "\u{10}", "\u{19}", "\u{7f}", "\u{200b}", "\u{202e}", "\u{feff}", "\u{2060}",
    "1.2.3.0", "2.1.0.0.0", "1.0.0.0", "0.0", ".0", "+incompatible", "v1.2.3", "1!2.0", ".post1", "api/v2", "/v3/index.json", "--", "-_-", "__", "..-",
    // template placeholders and back-references
    "{}", "{0}", "{name}", "{subpath}", "{version}", "{namespace}", "{qualifiers}", "{type}", "%s", "$1", "\\1", "{{", "}}",
    // markers other tools strip: aliases, suffixes, wrappers, one layer at a time
    "npm:", "npm:npm:", ".git", ".git/", ".git//", "[[", "]]", "[[1]]", "vv", "((", "))", "\"\"", "''", "00", "000", "#sha256=ab", "#egg=x", "dist/", "/.git",
    // packaging / archive words a coordinate parser would peel off
    "ear", "aar", "zip", "tgz", "whl", "nupkg", "crate", "gem", "test-jar", "tests", "maven-plugin", "bundle",
];

/// Versions in the notations of the ecosystems (what a version-normalising special case would
/// key on).
pub const VERSION_VOCABULARY: &[&str] = &[
    "1.0.0", "1.2.3.0", "2.1.0.0.0", "1.0.0.0.0.0", "1.0", "1", "0", "0.0.0", "01.002.0003", "1.0.0-rc.1+build.5", "1.0.0+build", "1.0.0+a+b", "v1.2.3", "V1.2.3",
    "1.0.0+incompatible", "v0.0.0-20200101000000-abcdef123456", "1!2.0", "2.0.post1", "1.0a1", "1.0.dev0", "1.0-SNAPSHOT", "1.0.RELEASE", "1.0.Final", "[1.0,2.0)", "^1.2",
    "~> 1.0", ">=1,<2", "latest", "1.0.0-alpha.beta", "1.0.0-0.3.7", "1.0.0-x.7.z.92", "1.2.3-4", "1_0", "1.0/../2.0", "a/.", "1.0/./x",
    // the same normalisation applicable more than once
    "[1.0]", "[[1.3.4]]", "[[[1]]]", "vv1.0", "Vv2", "vvv3", "1.001.0", "6.000.1304-beta01", "001.002", "1.0.0.0.0.0.0", "13.0.1-Beta2", "1.0-RC1+Build.5", "1.0-SNAPSHOT-SNAPSHOT", "v1.0.0+incompatible+incompatible", "1.0..0", "==1.0==",
];

/// Namespaces and names as they look in each ecosystem, with hosts and group ids whose letter
/// case some registries fold.
pub fn realistic_ns_name(r: &mut Rng, ty: &str) -> (Vec<String>, String) {
    let flip = |r: &mut Rng, s: &str| -> String {
        match r.below(4) {
            0 => s.to_string(),
            1 => s.to_ascii_uppercase(),
            2 => {
                let mut c = s.chars();
                c.next().map(|f| f.to_ascii_uppercase().to_string() + c.as_str()).unwrap_or_default()
            },
            _ => s.chars().map(|c| if r.coin() { c.to_ascii_uppercase() } else { c }).collect(),
        }
    };
    let (ns, name): (&[&str], &[&str]) = match ty {
        "golang" => (
            &["github.com/foo", "github.com/go-redis/redis", "golang.org/x", "k8s.io", "gopkg.in", "gitlab.com/a/b", "bitbucket.org/a", "example.com/app/vendor/github.com/foo", "vendor/github.com/foo", "go.uber.org"],
            &["bar", "v8", "v2", "yaml.v2", "klog", "text", "zap", "Bar", "repo.git", "repo.git/", "repo.git//", "mux.git.git", "...", "!burnt!sushi"],
        ),
        "npm" => (&["@angular", "@babel", "@types", "@Scope", "", "npm:", "npm:npm:", "@npm:"], &["core", "cli", "lodash", "node", "JSONStream", "left-pad", "npm:left-pad", "npm:npm:x", "@angular%2Fcli"]),
        "maven" => (&["org.apache.commons", "org.springframework.boot", "com.google.guava", "junit", "io.netty"], &["commons-lang3", "guava", "junit", "spring-boot-starter", "g:a"]),
        "pypi" => (&["", ""], &["Django", "zope.interface", "zope--interface", "requests[security]", "Pillow", "ruamel.yaml", "backports.ssl_match_hostname", "a-_-b"]),
        "nuget" => (&["", ""], &["Newtonsoft.Json", "EntityFramework", "NUnit", "Microsoft.Extensions.Logging"]),
        "cargo" => (&["", ""], &["serde", "rand_core", "Inflector", "tokio-util"]),
        "gem" => (&["", ""], &["rails", "ruby-advisory-db", "RedCloth"]),
        _ => (&["a/b", "A"], &["n"]),
    };
    let ns = r.pick(ns).to_string();
    let ns: Vec<String> = ns.split('/').filter(|x| !x.is_empty()).map(|x| flip(r, x)).collect();
    let nm = *r.pick(name);
    (ns, flip(r, nm))
}

/// Registry and feed URLs of the ecosystems.
pub const REGISTRY_URLS: &[&str] = &[
    "https://repo1.maven.org/maven2", "https://api.nuget.org/v3/index.json", "https://www.nuget.org/api/v2", "https://www.myget.org/F/team/api/v2", "http://e.x/v2/", "https://registry.npmjs.org",
    "https://npm.pkg.github.com", "https://pypi.org/simple", "https://test.pypi.org/legacy/", "https://rubygems.org", "https://proxy.golang.org", "https://crates.io", "https://index.crates.io",
    "docker.io/library", "ghcr.io/a/b", "HTTPS://REPO1.MAVEN.ORG/maven2", "repo.spring.io/release",
];

/// The values the spec lists for well-known qualifier keys (and a few more of the kind).
pub fn key_vocabulary(key: &str) -> &'static [&'static str] {
    match key {
        "type" => &["jar", "pom", "war", "ear", "zip", "tar.gz", "dll", "aar", "test-jar", "maven-plugin", "JAR"],
        "classifier" => &["sources", "javadoc", "dist", "tests", "jdk8", "linux-x86_64"],
        "platform" => &["java", "ruby", "jruby", "x86_64-linux", "universal-darwin"],
        "arch" => &["x86_64", "amd64", "i386", "arm64", "noarch", "all", "src"],
        "os" => &["linux", "windows", "darwin"],
        "repository_url" => REGISTRY_URLS,
        "download_url" => &["https://e.x/n-1.0.tgz", "http://e.x/a%20b", "ftp://e.x/a", "#sha256=abcd", "#", "https://e.x/a#egg=x", "https://e.x/get?file=a.tgz"],
        "vcs_url" => &["git+https://github.com/a/b.git@abc", "git+ssh://git@e.x/a", "svn+https://e.x/a", "hg+https://e.x", "git://e.x/a.git#v1"],
        "file_name" => &["n-1.0.tgz", "a b.jar", "a/b.zip", "n.tar.gz", "dist/", "/", "a/", "./x"],
        _ => &["1", "true", "stable", "main"],
    }
}

pub fn dict_token(r: &mut Rng) -> &'static str {
    *r.pick(DICTIONARY)
}

/// A dictionary token, one time in three with its ASCII letters in another case.
pub fn dict_token_cased(r: &mut Rng) -> String {
    let t = dict_token(r);
    match r.below(6) {
        0 => t.to_ascii_uppercase(),
        1 => t.chars().map(|c| if r.coin() { c.to_ascii_uppercase() } else { c }).collect(),
        _ => t.to_string(),
    }
}

/// A string mixing plain alphanumerics with hostile characters. `hostility` in percent.
pub fn mixed_string(r: &mut Rng, min: usize, max: usize, hostility: usize) -> String {
    let n = r.range(min, max);
    let mut s = String::new();
    for _ in 0..n {
        if r.below(100) < hostility {
            if r.chance(1, 12) {
                s.push_str(*r.pick(ESCAPE_LOOKALIKES));
            } else if r.chance(1, 12) {
                s.push_str(&dict_token_cased(r));
            } else {
                s.push(hostile_char(r));
            }
        } else {
            s.push(*r.pick(ALNUM) as char);
        }
    }
    s
}

/// A string whose UTF-8 length sits at the 23-byte inline/heap boundary of the small-string
/// type (22..=25 bytes), optionally with a multi-byte character straddling it.
pub fn boundary_string(r: &mut Rng, no_slash: bool) -> String {
    let target = r.range(22, 25);
    let mut s = String::new();
    let multi = *r.pick(&['é', 'Æ', '中', '😀', 'ǅ']);
    let at = if r.coin() { r.range(18, 22) } else { usize::MAX };
    while s.len() < target {
        if s.len() >= at && s.len() + multi.len_utf8() <= target + 1 && !s.contains(multi) {
            s.push(multi);
        } else {
            let c = if r.chance(1, 8) { *r.pick(SEPARATORS) } else { *r.pick(ALNUM) as char };
            s.push(if no_slash && c == '/' { 'a' } else { c });
        }
    }
    s
}

/// Length distribution biased to short strings, with an occasional long tail.
pub fn len_short(r: &mut Rng) -> (usize, usize) {
    match r.below(100) {
        0..=59 => (1, 4),
        60..=89 => (1, 12),
        90..=97 => (8, 40),
        _ => (30, 300),
    }
}

// ---------------------------------------------------------------------------------------------
// G1 — bounded token language

pub const SIGMA_FULL: &[&str] = &[
    "/", "@", "?", "#", "&", "=", ":", ",", "a", "B", "1", "k", ".", "..", "-", "+", " ", "%", "%2e", "%2E", "%2F",
    "%2f", "%41", "%80", "%C3%A9", "é", "%26", "%25", "checksum", "npm", "maven", "pypi",
];

pub const SIGMA_STRUCT: &[&str] = &["/", "@", "?", "#", "&", "=", "a", "B", ".", "..", "%2F", "%2e"];

pub const G1_CONTEXTS: &[&str] = &[
    "pkg:",
    "pkg:t/",
    "pkg:npm/",
    "pkg:maven/g/",
    "pkg:t/n@",
    "pkg:t/n?",
    "pkg:t/n?k=",
    "pkg:t/n?checksum=",
    "pkg:t/n#",
];

/// Number of strings in prefix · Σ^{≤n}.
pub fn lang_size(sigma: usize, n: usize) -> u64 {
    (0..=n).map(|l| (sigma as u64).pow(l as u32)).sum()
}

/// Enumerate prefix · Σ^{≤n} for every context; `f(global_index, string)` is called only for
/// indices with `index % nworkers == worker`. Returns the number of strings visited by this
/// worker. `start_index` lets several languages share one global index space.
pub fn for_each_lang(
    contexts: &[&str],
    sigma: &[&str],
    n: usize,
    worker: usize,
    nworkers: usize,
    start_index: u64,
    f: &mut dyn FnMut(u64, &str),
) -> u64 {
    let mut idx = start_index;
    let mut buf = String::new();
    for ctx in contexts {
        for len in 0..=n {
            let total = (sigma.len() as u64).pow(len as u32);
            for j in 0..total {
                if idx % nworkers as u64 == worker as u64 {
                    buf.clear();
                    buf.push_str(ctx);
                    // digits of j in base |sigma|, most significant first
                    let mut div = total;
                    let mut rem = j;
                    for _ in 0..len {
                        div /= sigma.len() as u64;
                        buf.push_str(sigma[(rem / div) as usize]);
                        rem %= div;
                    }
                    f(idx, &buf);
                }
                idx += 1;
            }
        }
    }
    idx - start_index
}

/// The standard two-alphabet token language at the tier's bounds.
pub fn for_each_g1(quick: bool, worker: usize, nworkers: usize, f: &mut dyn FnMut(u64, &str)) -> (u64, String) {
    let (nf, ns) = if quick { (3, 5) } else { (4, 6) };
    let a = for_each_lang(G1_CONTEXTS, SIGMA_FULL, nf, worker, nworkers, 0, f);
    let b = for_each_lang(G1_CONTEXTS, SIGMA_STRUCT, ns, worker, nworkers, a, f);
    (a + b, format!("G1: 9 contexts x (Sigma_full^<={nf} + Sigma_struct^<={ns})"))
}

/// A reduced token language for the checks where G1 is a side dish.
pub fn for_each_g1_reduced(quick: bool, worker: usize, nworkers: usize, f: &mut dyn FnMut(u64, &str)) -> (u64, String) {
    let (nf, ns) = if quick { (2, 4) } else { (3, 5) };
    let a = for_each_lang(G1_CONTEXTS, SIGMA_FULL, nf, worker, nworkers, 0, f);
    let b = for_each_lang(G1_CONTEXTS, SIGMA_STRUCT, ns, worker, nworkers, a, f);
    (a + b, format!("G1 reduced: 9 contexts x (Sigma_full^<={nf} + Sigma_struct^<={ns})"))
}

// ---------------------------------------------------------------------------------------------
// G10 — conformance corpus and token-level mutation

const FALLBACK_CORPUS: &[&str] = &[
    "pkg:maven/org.apache.commons/io@1.3.4",
    "pkg:GOLANG/google.golang.org/genproto@abcdedf#/googleapis/api/annotations/",
    "pkg:npm/%40angular/animation@12.3.1",
    "pkg:Maven/org.apache.xmlgraphics/batik-anim@1.9.1?classifier=sources&repositorY_url=repo.spring.io/release",
    "pkg:docker/customer/dockerimage@sha256%3A244fd47e07d10?repository_url=gcr.io",
    "pkg:PYPI/Django_package@1.11.1.dev1",
    "pkg:rpm/fedora/curl@7.50.3-1.fc25?arch=i386&distro=fedora-25",
    "pkg://maven/org.apache.commons/io",
    "pkg:generic/a?checksum=sha1:ad9503c3e994a4f611a4892f2e67ac82df727086,md5:00",
    "pkg:nuget/EnterpriseLibrary.Common@6.0.1304",
];

pub fn load_corpus() -> (Vec<String>, &'static str) {
    let mut out = Vec::new();
    for f in ["/repo/xtask/src/generate_tests/test-suite-data.json", "/repo/xtask/src/generate_tests/phylum-test-suite-data.json"] {
        let Ok(text) = std::fs::read_to_string(f) else { continue };
        let Ok(v) = serde_json::from_str::<serde_json::Value>(&text) else { continue };
        let Some(arr) = v.as_array() else { continue };
        for e in arr {
            for k in ["purl", "canonical_purl"] {
                if let Some(s) = e.get(k).and_then(|x| x.as_str()) {
                    if !out.iter().any(|o| o == s) {
                        out.push(s.to_string());
                    }
                }
            }
        }
    }
    if out.len() >= 10 {
        (out, "xtask conformance json")
    } else {
        (FALLBACK_CORPUS.iter().map(|s| s.to_string()).collect(), "built-in fallback corpus")
    }
}

/// Split a PURL-ish string into tokens: separators, %XX escapes, runs of other characters.
pub fn tokenize(s: &str) -> Vec<String> {
    let cs: Vec<char> = s.chars().collect();
    let mut out = Vec::new();
    let mut i = 0;
    while i < cs.len() {
        let c = cs[i];
        if c == '%' && cs.get(i + 1).map_or(false, |x| x.is_ascii_hexdigit()) && cs.get(i + 2).map_or(false, |x| x.is_ascii_hexdigit()) {
            out.push(cs[i..i + 3].iter().collect());
            i += 3;
        } else if SEPARATORS.contains(&c) || c == '.' {
            out.push(c.to_string());
            i += 1;
        } else {
            let st = i;
            while i < cs.len() && !SEPARATORS.contains(&cs[i]) && cs[i] != '.' {
                i += 1;
            }
            out.push(cs[st..i].iter().collect());
        }
    }
    out
}

fn mutation_token(r: &mut Rng) -> String {
    match r.below(10) {
        0..=4 => r.pick(SIGMA_FULL).to_string(),
        5..=7 => hostile_char(r).to_string(),
        8 => r.pick(ESCAPE_LOOKALIKES).to_string(),
        _ => mixed_string(r, 1, 6, 30),
    }
}

/// 1–8 token-level mutations of a corpus string (always valid UTF-8).
pub fn mutate(r: &mut Rng, corpus: &[String]) -> String {
    let mut toks = tokenize(r.pick(corpus).as_str());
    let n = r.range(1, 8);
    for _ in 0..n {
        match r.below(6) {
            0 => {
                let p = r.below(toks.len() + 1);
                toks.insert(p, mutation_token(r));
            },
            1 if !toks.is_empty() => {
                let p = r.below(toks.len());
                toks.remove(p);
            },
            2 if !toks.is_empty() => {
                let p = r.below(toks.len());
                toks[p] = mutation_token(r);
            },
            3 if !toks.is_empty() => {
                let p = r.below(toks.len());
                let t = toks[p].clone();
                toks.insert(p, t);
            },
            4 => {
                // splice with another corpus string
                let other = tokenize(r.pick(corpus).as_str());
                let cut_a = r.below(toks.len() + 1);
                let cut_b = r.below(other.len() + 1);
                toks.truncate(cut_a);
                toks.extend_from_slice(&other[cut_b..]);
            },
            _ if toks.len() >= 2 => {
                let a = r.below(toks.len());
                let b = r.below(toks.len());
                toks.swap(a, b);
            },
            _ => {},
        }
    }
    toks.concat()
}

/// "Escape soup": random concatenations of %XX for arbitrary byte values mixed with raw text,
/// placed in a random component position.
pub fn escape_soup(r: &mut Rng) -> String {
    let mut body = String::new();
    let n = r.range(1, 10);
    for _ in 0..n {
        match r.below(10) {
            0..=5 => {
                let b = r.below(256);
                let up = r.coin();
                if up {
                    body.push_str(&format!("%{b:02X}"));
                } else {
                    body.push_str(&format!("%{b:02x}"));
                }
            },
            6 => {
                // a complete valid multi-byte character, escaped
                let c = *r.pick(NON_ASCII);
                let mut buf = [0u8; 4];
                for b in c.encode_utf8(&mut buf).bytes() {
                    body.push_str(&format!("%{b:02X}"));
                }
            },
            7 => body.push(*r.pick(ALNUM) as char),
            8 => body.push(hostile_char(r)),
            _ => body.push_str(*r.pick(SIGMA_FULL)),
        }
    }
    let ctx = [
        "pkg:t/", "pkg:t/ns/", "pkg:t/n@", "pkg:t/n?k=", "pkg:t/n#", "pkg:npm/", "pkg:pypi/", "pkg:nuget/", "pkg:maven/g/",
        "pkg:t/n?checksum=a:00,b:", "pkg:t/",
    ];
    let c = *r.pick(&ctx);
    let suffix = ["", "", "/n", "@1", "?k=v", "#s", "/n@1?k=v#s"];
    format!("{c}{body}{}", r.pick(&suffix))
}

/// Every Unicode scalar, raw and percent-encoded, in every syntactic slot whose alphabet is
/// restricted (scheme, type, key, checksum algorithm and digest, the two digits of an escape).
/// Returns the number of strings this worker produced.
pub fn for_each_slot_string(worker: usize, nworkers: usize, f: &mut dyn FnMut(&str)) -> u64 {
    let mut n = 0u64;
    for cp in 0..=0x10FFFFu32 {
        if cp as usize % nworkers != worker {
            continue;
        }
        let Some(c) = char::from_u32(cp) else { continue };
        let mut buf = [0u8; 4];
        let enc: String = c.encode_utf8(&mut buf).bytes().map(|b| format!("%{b:02X}")).collect();
        for x in [c.to_string(), enc] {
            for s in [
                format!("pk{x}:t/n"),
                format!("pkg:t{x}/n"),
                format!("pkg:{x}t/n"),
                format!("pkg:t/n?k{x}=v"),
                format!("pkg:t/n?{x}k=v"),
                format!("pkg:t/n?checksum=a{x}:00"),
                format!("pkg:t/n?checksum=a:{x}0"),
                format!("pkg:t/n?checksum=a:0{x}"),
                format!("pkg:t/n?checksum=a:00,b:{x}{x}"),
                format!("pkg:t/n@%{x}0"),
                format!("pkg:t/n@%4{x}"),
            ] {
                n += 1;
                f(&s);
            }
        }
    }
    n
}

// ---------------------------------------------------------------------------------------------
// G11 — large inputs

/// A catalogue of large (up to 1 MiB) inputs. `size` is the approximate byte size.
pub fn large_inputs(size: usize) -> Vec<(String, String)> {
    let mut v: Vec<(String, String)> = Vec::new();
    let rep = |s: &str, total: usize| s.repeat((total / s.len().max(1)).max(1));
    v.push(("long-name".into(), format!("pkg:t/{}", rep("a", size))));
    v.push(("long-name-upper-nuget".into(), format!("pkg:nuget/{}", rep("A", size))));
    v.push(("long-name-pypi-dashes".into(), format!("pkg:pypi/{}", rep("-_.", size))));
    v.push(("long-name-unicode-nuget".into(), format!("pkg:nuget/{}", rep("Æ", size))));
    // many units of structure rather than one long unit (depth of anything done per unit)
    v.push(("many-separator-runs-pypi".into(), format!("pkg:pypi/{}", rep("a-", size))));
    v.push(("many-mixed-separator-runs-pypi".into(), format!("pkg:pypi/{}", rep("A_.b-", size))));
    v.push(("many-case-changes-nuget".into(), format!("pkg:nuget/{}", rep("aÆbC", size))));
    v.push(("many-alternating-subpath-segments".into(), format!("pkg:t/n#{}", rep("a/./b/../", size))));
    v.push(("many-alternating-escapes".into(), format!("pkg:t/{}", rep("a%41", size))));
    {
        let n = (size / 10).min(50_000).max(2);
        let entries: Vec<String> = (0..n).map(|i| format!("a{i:06}:00")).collect();
        v.push(("many-checksum-entries".into(), format!("pkg:t/n?checksum={}", entries.join(","))));
        let entries: Vec<String> = (0..n).rev().map(|i| format!("A{i:06}:FF")).collect();
        v.push(("many-checksum-entries-descending-upper".into(), format!("pkg:t/n?checksum={}", entries.join(","))));
    }
    v.push(("long-version".into(), format!("pkg:t/n@{}", rep("1.", size))));
    v.push(("many-namespace-segments".into(), format!("pkg:t/{}n", rep("a/", size))));
    v.push(("many-empty-namespace-segments".into(), format!("pkg:t/{}n", rep("/", size))));
    v.push(("many-subpath-segments".into(), format!("pkg:t/n#{}", rep("a/", size))));
    v.push(("many-dot-subpath-segments".into(), format!("pkg:t/n#{}", rep("../", size))));
    v.push(("run-of-at".into(), format!("pkg:t/n{}", rep("@", size))));
    v.push(("run-of-question".into(), format!("pkg:t/n{}", rep("?", size))));
    v.push(("run-of-hash".into(), format!("pkg:t/n{}", rep("#", size))));
    v.push(("run-of-amp".into(), format!("pkg:t/n?{}", rep("&", size))));
    v.push(("run-of-eq".into(), format!("pkg:t/n?k={}", rep("=", size))));
    v.push(("run-of-percent".into(), format!("pkg:t/{}", rep("%", size))));
    v.push(("run-of-escapes".into(), format!("pkg:t/{}", rep("%41", size))));
    v.push(("run-of-bad-escapes".into(), format!("pkg:t/{}", rep("%80", size))));
    v.push(("run-of-2byte".into(), format!("pkg:t/{}", rep("é", size))));
    v.push(("run-of-3byte".into(), format!("pkg:t/{}", rep("中", size))));
    v.push(("run-of-4byte".into(), format!("pkg:t/{}", rep("😀", size))));
    v.push(("run-of-colon-comma-checksum".into(), format!("pkg:t/n?checksum={}", rep(":,", size))));
    v.push(("long-type".into(), format!("pkg:{}/n", rep("t", size))));
    v.push(("no-scheme-long".into(), rep("x", size)));
    // qualifiers: ascending / descending / pseudo-random key order (descending is the quadratic case)
    let nq = (size / 12).min(20_000).max(4);
    let key = |i: usize| format!("k{i:07}");
    let mut asc = String::from("pkg:t/n?");
    let mut desc = String::from("pkg:t/n?");
    let mut rnd = String::from("pkg:t/n?");
    for i in 0..nq {
        if i > 0 {
            asc.push('&');
            desc.push('&');
            rnd.push('&');
        }
        asc.push_str(&format!("{}=v", key(i)));
        desc.push_str(&format!("{}=v", key(nq - 1 - i)));
        rnd.push_str(&format!("{}=v", key((i * 7919) % nq)));
    }
    v.push(("qualifiers-ascending".into(), asc));
    v.push(("qualifiers-descending".into(), desc));
    v.push(("qualifiers-scattered".into(), rnd));
    let mut empty_q = String::from("pkg:t/n?");
    for i in 0..(size / 10).min(300_000) {
        if i > 0 {
            empty_q.push('&');
        }
        empty_q.push_str(&format!("{}=", key(i)));
    }
    v.push(("empty-valued-qualifiers".into(), empty_q));
    let mut cs = String::from("pkg:t/n?checksum=");
    for i in 0..(size / 12).min(50_000) {
        if i > 0 {
            cs.push(',');
        }
        cs.push_str(&format!("a{i:06}:00ff"));
    }
    v.push(("checksum-many-algorithms".into(), cs));
    v
}
