//! Deterministic PRNG (splitmix64 seeding + xoshiro256**). Every random choice of the
//! harness derives from VERIF_SEED through this module; nothing else is random except the
//! `RandomState` keys inside `purl::Checksum`, which the properties quantify over.

#[derive(Clone, Debug)]
pub struct Rng {
    s: [u64; 4],
}

pub fn splitmix64(x: &mut u64) -> u64 {
    *x = x.wrapping_add(0x9E37_79B9_7F4A_7C15);
    let mut z = *x;
    z = (z ^ (z >> 30)).wrapping_mul(0xBF58_476D_1CE4_E5B9);
    z = (z ^ (z >> 27)).wrapping_mul(0x94D0_49BB_1331_11EB);
    z ^ (z >> 31)
}

/// 64-bit FNV-1a, used for stream derivation and for "distinct case" counting.
pub fn fnv(bytes: &[u8]) -> u64 {
    let mut h: u64 = 0xcbf2_9ce4_8422_2325;
    for b in bytes {
        h ^= *b as u64;
        h = h.wrapping_mul(0x0000_0100_0000_01b3);
    }
    h
}

pub fn mix(a: u64, b: u64) -> u64 {
    let mut x = a ^ b.rotate_left(32) ^ 0x1234_5678_9abc_def0;
    let r = splitmix64(&mut x);
    r ^ splitmix64(&mut x)
}

impl Rng {
    pub fn new(seed: u64) -> Self {
        let mut x = seed;
        let s = [splitmix64(&mut x), splitmix64(&mut x), splitmix64(&mut x), splitmix64(&mut x)];
        Rng { s }
    }

    /// Stream for (seed, worker, generator tag).
    pub fn stream(seed: u64, worker: u64, tag: &str) -> Self {
        Rng::new(mix(mix(seed, worker), fnv(tag.as_bytes())))
    }

    pub fn next(&mut self) -> u64 {
        let result = self.s[1].wrapping_mul(5).rotate_left(7).wrapping_mul(9);
        let t = self.s[1] << 17;
        self.s[2] ^= self.s[0];
        self.s[3] ^= self.s[1];
        self.s[1] ^= self.s[2];
        self.s[0] ^= self.s[3];
        self.s[2] ^= t;
        self.s[3] = self.s[3].rotate_left(45);
        result
    }

    /// Uniform in 0..n (n > 0).
    pub fn below(&mut self, n: usize) -> usize {
        debug_assert!(n > 0);
        ((self.next() >> 11) as u128 * n as u128 >> 53) as usize
    }

    /// Uniform in lo..=hi.
    pub fn range(&mut self, lo: usize, hi: usize) -> usize {
        lo + self.below(hi - lo + 1)
    }

    pub fn chance(&mut self, num: usize, den: usize) -> bool {
        self.below(den) < num
    }

    pub fn coin(&mut self) -> bool {
        self.next() & 1 == 1
    }

    pub fn pick<'a, T>(&mut self, xs: &'a [T]) -> &'a T {
        &xs[self.below(xs.len())]
    }

    pub fn shuffle<T>(&mut self, xs: &mut [T]) {
        for i in (1..xs.len()).rev() {
            let j = self.below(i + 1);
            xs.swap(i, j);
        }
    }
}
