//! Reference models R1–R4, R6, R8 (DESIGN.md section 5). Nothing here uses `purl`,
//! `percent-encoding`, `smartstring`, `unicase` or `phf`; the trusted base is Rust `std`.

use std::collections::BTreeMap;

use serde::{Deserialize, Serialize};

/// Decoded components of a PURL as the statements describe them.
#[derive(Clone, Debug, PartialEq, Eq, Hash, Serialize, Deserialize, Default)]
pub struct Comps {
    /// ASCII-lower-cased type.
    pub ty: String,
    /// Decoded, significant namespace segments.
    pub ns: Vec<String>,
    pub name: String,
    pub ver: Option<String>,
    /// Lower-cased keys in ascending order, non-empty values; checksum canonicalised.
    pub quals: Vec<(String, String)>,
    /// Decoded, significant subpath segments.
    pub sub: Vec<String>,
}

impl Comps {
    pub fn ns_opt(&self) -> Option<String> {
        if self.ns.is_empty() {
            None
        } else {
            Some(self.ns.join("/"))
        }
    }

    pub fn sub_opt(&self) -> Option<String> {
        if self.sub.is_empty() {
            None
        } else {
            Some(self.sub.join("/"))
        }
    }
}

// ---------------------------------------------------------------------------------------------
// R3 — lower-casing

/// Each character replaced by its Unicode lower-case mapping (NOT `str::to_lowercase`, whose
/// final-sigma rule is context dependent).
pub fn lower(s: &str) -> String {
    s.chars().flat_map(char::to_lowercase).collect()
}

pub fn ascii_lower(s: &str) -> String {
    s.chars().map(|c| if c.is_ascii_uppercase() { (c as u8 + 32) as char } else { c }).collect()
}

// ---------------------------------------------------------------------------------------------
// R8 — package types

pub const KNOWN_TYPES: [&str; 7] = ["cargo", "gem", "golang", "maven", "npm", "nuget", "pypi"];

pub fn known_type(ty_lower: &str) -> bool {
    KNOWN_TYPES.contains(&ty_lower)
}

// ---------------------------------------------------------------------------------------------
// R4 — name rules

pub fn pypi_name(n: &str) -> String {
    let mut out = String::new();
    let mut in_run = false;
    for c in n.chars() {
        if c == '-' || c == '_' || c == '.' {
            if !in_run {
                out.push('-');
            }
            in_run = true;
        } else {
            in_run = false;
            out.extend(c.to_lowercase());
        }
    }
    out
}

/// Name as the typed PURL must report it for (lower-case) type `ty`.
pub fn typed_name(ty: &str, n: &str) -> String {
    match ty {
        "pypi" => pypi_name(n),
        "nuget" => lower(n),
        _ => n.to_string(),
    }
}

// ---------------------------------------------------------------------------------------------
// Syntax predicates

pub fn type_chars_ok(t: &str) -> bool {
    !t.is_empty() && t.bytes().all(|b| b.is_ascii_alphanumeric() || b == b'.' || b == b'+' || b == b'-')
}

pub fn key_ok(k: &str) -> bool {
    !k.is_empty() && k.bytes().all(|b| b.is_ascii_alphanumeric() || b == b'.' || b == b'-' || b == b'_')
}

// ---------------------------------------------------------------------------------------------
// Own percent decoder

#[derive(Debug, PartialEq, Eq)]
pub enum Dec {
    Ok(String),
    /// A '%' not followed by two hex digits (lenient in the library; unspecified for us).
    Lenient,
    /// Well-formed escapes, but the bytes are not UTF-8.
    BadUtf8,
}

fn hexval(b: u8) -> Option<u8> {
    match b {
        b'0'..=b'9' => Some(b - b'0'),
        b'a'..=b'f' => Some(b - b'a' + 10),
        b'A'..=b'F' => Some(b - b'A' + 10),
        _ => None,
    }
}

pub fn dec(x: &str) -> Dec {
    let b = x.as_bytes();
    let mut out = Vec::with_capacity(b.len());
    let mut i = 0;
    while i < b.len() {
        if b[i] == b'%' {
            if i + 2 >= b.len() {
                return Dec::Lenient;
            }
            match (hexval(b[i + 1]), hexval(b[i + 2])) {
                (Some(h), Some(l)) => {
                    out.push(h * 16 + l);
                    i += 3;
                },
                _ => return Dec::Lenient,
            }
        } else {
            out.push(b[i]);
            i += 1;
        }
    }
    match String::from_utf8(out) {
        Ok(s) => Dec::Ok(s),
        Err(_) => Dec::BadUtf8,
    }
}

// ---------------------------------------------------------------------------------------------
// R6 — checksum model

/// Parse a checksum text as C05/C12 describe it. Ok(map lower(alg) -> ascii-lower hex).
pub fn checksum_parse(text: &str) -> Result<BTreeMap<String, String>, &'static str> {
    let mut m = BTreeMap::new();
    for entry in text.split(',') {
        let Some(pos) = entry.rfind(':') else {
            return Err("entry-without-colon");
        };
        let alg = lower(&entry[..pos]);
        let hexs = &entry[pos + 1..];
        if hexs.len() % 2 != 0 {
            return Err("odd-digits");
        }
        if !hexs.bytes().all(|b| b.is_ascii_hexdigit()) {
            return Err("non-hex");
        }
        if m.insert(alg, ascii_lower(hexs)).is_some() {
            return Err("duplicate-algorithm");
        }
    }
    Ok(m)
}

pub fn checksum_text(m: &BTreeMap<String, String>) -> String {
    let mut out = String::new();
    for (i, (a, h)) in m.iter().enumerate() {
        if i > 0 {
            out.push(',');
        }
        out.push_str(a);
        out.push(':');
        out.push_str(&ascii_lower(h));
    }
    out
}

/// Is `text` in the canonical form C04 demands?
pub fn checksum_canonical(text: &str) -> Result<(), String> {
    let mut prev: Option<&str> = None;
    for entry in text.split(',') {
        let Some(pos) = entry.rfind(':') else {
            return Err(format!("entry {entry:?} has no ':'"));
        };
        let (alg, hexs) = (&entry[..pos], &entry[pos + 1..]);
        if hexs.len() % 2 != 0 || !hexs.bytes().all(|b| b.is_ascii_hexdigit()) {
            return Err(format!("entry {entry:?}: not an even run of hex digits"));
        }
        if let Some(p) = prev {
            if p >= alg {
                return Err(format!("algorithms not strictly ascending: {p:?} then {alg:?}"));
            }
        }
        prev = Some(alg);
    }
    if text.bytes().any(|b| b.is_ascii_uppercase()) {
        return Err("contains an ASCII upper-case letter".into());
    }
    Ok(())
}

// ---------------------------------------------------------------------------------------------
// R2 — independent renderer

#[derive(Clone, Copy, PartialEq, Eq, Debug)]
pub enum Pos {
    Namespace,
    Name,
    Version,
    Qual,
    Subpath,
}

/// Must byte `b` (ASCII) be written as %XX in position `pos`? Straight from C03's sentence.
pub fn must_escape(b: u8, pos: Pos) -> bool {
    if b < 0x20 || b == 0x7F || b >= 0x80 {
        return true;
    }
    if matches!(b, b' ' | b'"' | b'<' | b'>' | b'%' | b'@' | b'?' | b'#') {
        return true;
    }
    match pos {
        Pos::Namespace | Pos::Version => matches!(b, b'`' | b'{' | b'}'),
        Pos::Name => matches!(b, b'`' | b'{' | b'}' | b'/'),
        Pos::Qual => matches!(b, b'+' | b'&'),
        Pos::Subpath => b == b'`',
    }
}

const HEX: &[u8; 16] = b"0123456789ABCDEF";

pub fn enc(s: &str, pos: Pos, out: &mut String) {
    for &b in s.as_bytes() {
        if must_escape(b, pos) {
            out.push('%');
            out.push(HEX[(b >> 4) as usize] as char);
            out.push(HEX[(b & 15) as usize] as char);
        } else {
            out.push(b as char);
        }
    }
}

pub fn render(
    ty: &str,
    ns: Option<&str>,
    name: &str,
    ver: Option<&str>,
    quals: &[(String, String)],
    sub: Option<&str>,
) -> String {
    let mut o = String::from("pkg:");
    o.push_str(ty);
    o.push('/');
    if let Some(ns) = ns {
        enc(ns, Pos::Namespace, &mut o);
        o.push('/');
    }
    enc(name, Pos::Name, &mut o);
    if let Some(v) = ver {
        o.push('@');
        enc(v, Pos::Version, &mut o);
    }
    for (i, (k, v)) in quals.iter().enumerate() {
        o.push(if i == 0 { '?' } else { '&' });
        enc(k, Pos::Qual, &mut o);
        o.push('=');
        enc(v, Pos::Qual, &mut o);
    }
    if let Some(s) = sub {
        o.push('#');
        enc(s, Pos::Subpath, &mut o);
    }
    o
}

pub fn render_comps(c: &Comps) -> String {
    render(&c.ty, c.ns_opt().as_deref(), &c.name, c.ver.as_deref(), &c.quals, c.sub_opt().as_deref())
}

// ---------------------------------------------------------------------------------------------
// R1 — three-valued recogniser

#[derive(Debug, Clone, PartialEq, Eq)]
pub enum Class {
    MustAccept(Comps),
    MustReject(Vec<&'static str>),
    Unspecified,
}

struct Acc {
    rejects: Vec<&'static str>,
    unspec: bool,
}

impl Acc {
    fn rej(&mut self, c: &'static str) {
        if !self.rejects.contains(&c) {
            self.rejects.push(c);
        }
    }

    fn d(&mut self, x: &str) -> Option<String> {
        match dec(x) {
            Dec::Ok(s) => Some(s),
            Dec::Lenient => {
                self.unspec = true;
                None
            },
            Dec::BadUtf8 => {
                self.rej("utf8");
                None
            },
        }
    }
}

/// Everything the recogniser found out about a string.
#[derive(Debug, Clone, PartialEq, Eq)]
pub struct Analysis {
    /// Defect classes of C05's list that are present.
    pub rejects: Vec<&'static str>,
    /// Something the statements leave open is present as well.
    pub unspec: bool,
    /// Components as far as they could be determined (complete iff no reject and no unspec).
    pub comps: Comps,
}

impl Analysis {
    pub fn class(&self) -> Class {
        if !self.rejects.is_empty() {
            Class::MustReject(self.rejects.clone())
        } else if self.unspec {
            Class::Unspecified
        } else {
            Class::MustAccept(self.comps.clone())
        }
    }
}

pub fn classify(s: &str) -> Class {
    analyse(s).class()
}

/// The left-to-right decision procedure of DESIGN.md Appendix A.
pub fn analyse(s: &str) -> Analysis {
    if !s.starts_with("pkg:") {
        let b = s.as_bytes();
        if b.len() >= 4 && b[..4].eq_ignore_ascii_case(b"pkg:") {
            return Analysis { rejects: vec![], unspec: true, comps: Comps::default() };
        }
        return Analysis { rejects: vec!["scheme"], unspec: false, comps: Comps::default() };
    }
    let mut acc = Acc { rejects: vec![], unspec: false };
    let r = s[4..].trim_start_matches('/');
    let (r, sub) = match r.rfind('#') {
        Some(i) => (&r[..i], Some(&r[i + 1..])),
        None => (r, None),
    };
    let (path, q) = match r.rfind('?') {
        Some(i) => (&r[..i], Some(&r[i + 1..])),
        None => (r, None),
    };
    let mut comps = Comps::default();
    if path.is_empty() {
        acc.rej("no-type");
    } else {
        let (ty, after) = match path.find('/') {
            Some(i) => (&path[..i], Some(&path[i + 1..])),
            None => (path, None),
        };
        if !type_chars_ok(ty) {
            acc.rej("type-invalid");
        } else if !ty.as_bytes()[0].is_ascii_alphabetic() {
            acc.unspec = true;
        }
        comps.ty = ascii_lower(ty);
        match after {
            None => acc.rej("no-name"),
            Some(after) => {
                let (nn, ver) = match after.rfind('@') {
                    Some(i) => (&after[..i], Some(&after[i + 1..])),
                    None => (after, None),
                };
                if let Some(v) = ver {
                    if v.is_empty() {
                        acc.unspec = true;
                    } else if let Some(d) = acc.d(v) {
                        if d.is_empty() {
                            acc.unspec = true;
                        }
                        comps.ver = Some(d);
                    }
                }
                let (ns, name) = match nn.rfind('/') {
                    Some(i) => (Some(&nn[..i]), &nn[i + 1..]),
                    None => (None, nn),
                };
                if name.is_empty() {
                    acc.rej("no-name");
                } else if let Some(d) = acc.d(name) {
                    comps.name = d;
                }
                if let Some(ns) = ns {
                    for seg in ns.split('/') {
                        if seg.is_empty() {
                            continue;
                        }
                        if let Some(d) = acc.d(seg) {
                            if d.contains('/') {
                                acc.rej("hidden-slash");
                            }
                            comps.ns.push(d);
                        }
                    }
                }
            },
        }
    }
    if let Some(q) = q {
        if q.is_empty() {
            acc.unspec = true;
        } else {
            let mut seen: BTreeMap<String, bool> = BTreeMap::new(); // lower key -> had non-empty value
            let mut map: BTreeMap<String, String> = BTreeMap::new();
            for item in q.split('&') {
                if item.is_empty() {
                    acc.unspec = true;
                    continue;
                }
                let Some(eq) = item.find('=') else {
                    acc.rej("qualifier-no-eq");
                    continue;
                };
                let (k, v) = (&item[..eq], &item[eq + 1..]);
                // Every defect of the item is recorded (the value is analysed even when the
                // key is bad), so that "single defect" never overlooks a second one.
                let d = acc.d(v);
                if !key_ok(k) {
                    acc.rej("key");
                    continue;
                }
                if !k.as_bytes()[0].is_ascii_alphabetic() {
                    acc.unspec = true;
                }
                let lk = ascii_lower(k);
                // A repeated key is a defect of its own, whether or not its value decodes
                // (a non-empty raw value cannot decode to the empty string).
                let nonempty = d.as_ref().map_or(!v.is_empty(), |d| !d.is_empty());
                match seen.get(&lk).copied() {
                    Some(prev_nonempty) => {
                        if prev_nonempty && nonempty {
                            acc.rej("dup-key");
                        } else {
                            acc.unspec = true;
                        }
                    },
                    None => {
                        seen.insert(lk.clone(), nonempty);
                    },
                }
                let Some(d) = d else { continue };
                if !d.is_empty() {
                    map.entry(lk).or_insert(d);
                }
            }
            if let Some(cs) = map.get("checksum").cloned() {
                match checksum_parse(&cs) {
                    Ok(m) => {
                        map.insert("checksum".into(), checksum_text(&m));
                    },
                    Err(_) => acc.rej("checksum"),
                }
            }
            comps.quals = map.into_iter().collect();
        }
    }
    if let Some(sub) = sub {
        if sub.is_empty() {
            acc.unspec = true;
        } else {
            for seg in sub.split('/') {
                if seg.is_empty() || seg == "." || seg == ".." {
                    continue;
                }
                if let Some(d) = acc.d(seg) {
                    if d.contains('/') {
                        acc.rej("hidden-slash");
                    }
                    if d == "." || d == ".." {
                        acc.unspec = true;
                    }
                    comps.sub.push(d);
                }
            }
        }
    }
    Analysis { rejects: acc.rejects, unspec: acc.unspec, comps }
}

/// What the typed PURL must do with a generic MustAccept result.
#[derive(Debug, Clone, PartialEq, Eq)]
pub enum TypedExpect {
    Ok(Comps),
    UnsupportedType,
    MissingNamespace,
}

pub fn typed_expect(c: &Comps) -> TypedExpect {
    if !known_type(&c.ty) {
        return TypedExpect::UnsupportedType;
    }
    if c.ty == "maven" && c.ns.is_empty() {
        return TypedExpect::MissingNamespace;
    }
    let mut t = c.clone();
    t.name = typed_name(&c.ty, &c.name);
    TypedExpect::Ok(t)
}

#[cfg(test)]
mod tests {
    use super::*;

    #[test]
    fn dec_basics() {
        assert_eq!(dec("a%41%c3%A9"), Dec::Ok("aAé".into()));
        assert_eq!(dec("%"), Dec::Lenient);
        assert_eq!(dec("%4"), Dec::Lenient);
        assert_eq!(dec("%zz"), Dec::Lenient);
        assert_eq!(dec("a%4"), Dec::Lenient);
        assert_eq!(dec("%80"), Dec::BadUtf8);
        assert_eq!(dec("%41"), Dec::Ok("A".into()));
        assert_eq!(dec(""), Dec::Ok("".into()));
    }

    #[test]
    fn classify_basics() {
        match classify("pkg:NPM/%40a/b@1?K=v&checksum=B:FF,a:00#x/./y") {
            Class::MustAccept(c) => {
                assert_eq!(c.ty, "npm");
                assert_eq!(c.ns, vec!["@a"]);
                assert_eq!(c.name, "b");
                assert_eq!(c.ver.as_deref(), Some("1"));
                assert_eq!(c.quals, vec![("checksum".into(), "a:00,b:ff".into()), ("k".into(), "v".into())]);
                assert_eq!(c.sub, vec!["x", "y"]);
            },
            o => panic!("{o:?}"),
        }
        assert!(matches!(classify("pkg:t/n?k"), Class::MustReject(_)));
        assert!(matches!(classify("http:t/n"), Class::MustReject(_)));
        assert!(matches!(classify("PKG:t/n"), Class::Unspecified));
        assert!(matches!(classify("pkg:t/n@"), Class::Unspecified));
        assert!(matches!(classify("pkg:t/%zz"), Class::Unspecified));
    }
}
