//! Advisory sanitizer slice: a few hundred monitored operations (oracles on) small enough for
//! Miri, also used under ASan / valgrind. `sanity <seed> <ops>`; single-threaded.
//! Exit 0 = all oracles silent; 1 = an oracle fired (printed); a sanitizer report is the
//! sanitizer's own business (Miri aborts with its diagnostics).

use purl::{PackageType, SmallString};
use purl_verif::mon::{c01, c03, c10, c11, c12, c13, values};
use purl_verif::obs::Stats;
use purl_verif::rng::Rng;
use purl_verif::{gen, hist, obs, spell};

fn main() {
    let args: Vec<String> = std::env::args().skip(1).collect();
    let seed: u64 = args.first().and_then(|s| s.parse().ok()).unwrap_or(1);
    let ops: u64 = args.get(1).and_then(|s| s.parse().ok()).unwrap_or(200);
    obs::install_panic_hook();
    let corpus: Vec<String> = [
        "pkg:maven/org.apache.commons/io@1.3.4",
        "pkg:GOLANG/google.golang.org/genproto@abcdedf#/googleapis/api/annotations/",
        "pkg:npm/%40angular/animation@12.3.1",
        "pkg:Maven/org.apache.xmlgraphics/batik-anim@1.9.1?classifier=sources&repositorY_url=repo.spring.io/release",
        "pkg:PYPI/Django_package@1.11.1.dev1",
        "pkg:generic/a?checksum=sha1:ad9503c3e994a4f611a4892f2e67ac82df727086,md5:00",
        "pkg:nuget/EnterpriseLibrary.Common@6.0.1304",
    ]
    .iter()
    .map(|s| s.to_string())
    .collect();
    let mut r = Rng::new(seed);
    let mut st = Stats::default();
    let mut fired = 0u64;
    let mut done = 0u64;
    let mut report = |what: &str, f: Option<purl_verif::mon::Fail>| {
        if let Some(f) = f {
            println!("ORACLE {what}: {}: {}", f.kind, f.detail);
            fired += 1;
        }
    };
    while done < ops {
        match r.below(7) {
            0 => {
                // parse -> format -> parse -> rebuild, all instantiations, legal spelling (often > 23 bytes: heap mode)
                let known = r.coin();
                let t = spell::gen_tuple(&mut r, known);
                let mask = spell::random_mask(&mut r);
                let s = spell::spell(&mut r, &t, mask).assemble();
                report("C01/String", c01::judge::<String>(&s).1);
                report("C01/SmallString", c01::judge::<SmallString>(&s).1);
                report("C01/Purl", c01::judge::<PackageType>(&s).1);
                for inst in values::PARSED_INSTS {
                    if let Some(x) = values::visit_parsed(&mut c10::C10, &mut st, inst, &s, false) {
                        report("C10", x);
                    }
                }
            },
            1 => {
                let s = gen::mutate(&mut r, &corpus);
                report("C01/String", c01::judge::<String>(&s).1);
                report("C13/parse", c13::judge_parse(&s).1);
            },
            2 => {
                let s = gen::escape_soup(&mut r);
                report("C01/Purl", c01::judge::<PackageType>(&s).1);
            },
            3 => {
                // builder history under every built-in type parameter
                let h = hist::rand_hist(&mut r, false);
                report("C13/build", c13::judge_hist(&h).1);
                for tp in ["String", "SmallString", "Cow::Owned", "Cow::Borrowed"] {
                    report("C03/built", c03::judge_hist_dyn(tp, &h));
                }
                let h = hist::rand_hist(&mut r, true);
                report("C03/typed", c03::judge_hist_dyn("PackageType", &h));
            },
            4 => {
                // qualifier collection history against the reference map (keys around the 23-byte inline limit)
                let pool: Vec<String> = vec!["a".into(), "bb".into(), "a-key.that_is-longer.than_23-bytes".into(), "checksum".into()];
                let n = r.range(5, 25);
                let mut q = purl::Qualifiers::default();
                let mut m = std::collections::BTreeMap::new();
                for _ in 0..n {
                    let k = r.pick(&pool).clone();
                    let k = if r.coin() { k.to_ascii_uppercase() } else { k };
                    let v = gen::mixed_string(&mut r, 0, 30, 30);
                    let op = match r.below(10) {
                        0..=2 => c11::QOp::Insert(k, v),
                        3 => c11::QOp::Remove(k),
                        4 => c11::QOp::EntryAndModifyOrInsert(k, v.clone(), v),
                        5 => c11::QOp::OccRemoveEntry(k),
                        6 => c11::QOp::IterInterleaved(r.next() as u32),
                        7 => c11::QOp::IterMutAppend(v),
                        8 => c11::QOp::RetainMut(c11::Pred::KeyNe(k), v),
                        _ => c11::QOp::Rebuild(r.next()),
                    };
                    report("C11", c11::step(&mut q, &mut m, &op));
                }
            },
            5 => {
                let g = c12::gen_history(&mut r);
                report("C12", c12::judge_instance(&g.ops).1);
            },
            _ => {
                // single scalar values in every position
                let c = gen::hostile_char(&mut r);
                for pos in 0..5 {
                    if let obs::Out::Ok(p) = c03::place(pos, &c.to_string()) {
                        report("C03/placed", c03::judge_value(&p).1);
                    }
                }
            },
        }
        done += 1;
    }
    println!("SANITY seed={seed} operations={done} oracle_failures={fired}");
    std::process::exit(if fired == 0 { 0 } else { 1 });
}
