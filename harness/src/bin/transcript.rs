fn main() {}
