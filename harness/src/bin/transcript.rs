//! C17 — one deterministic input stream executed under one feature set of `purl`; prints a
//! hash per block of transcript lines (or the lines of one block with `--dump-block K`).
//! The orchestrator builds this binary four times (no features / package-type / default /
//! default+serde) and compares the transcripts offline.
//!
//! `transcript --tier quick|thorough --seed N [--dump-block K]`

use std::fmt::{Debug, Display};
use std::panic::{self, AssertUnwindSafe};
use std::str::FromStr;

use purl::{GenericPurl, GenericPurlBuilder, PurlShape};
use purl_verif::hist::{self, Call, CsVal, Hist};
use purl_verif::rng::{fnv, mix, Rng};
use purl_verif::{gen, spell};

const BLOCK: u64 = 4096;

struct Sink {
    distinct: std::collections::HashSet<u64>,
    samples: Vec<String>,
    dump: Option<u64>,
    line_no: u64,
    block_hash: u64,
    hashes: Vec<u64>,
    err_lines: u64,
    ok_lines: u64,
}

impl Sink {
    fn line(&mut self, api: &str, input_idx: u64, text: String) {
        let l = format!("{input_idx}\t{api}\t{text}");
        if text.starts_with("Err") {
            self.err_lines += 1;
        } else {
            self.ok_lines += 1;
        }
        let block = self.line_no / BLOCK;
        if self.dump == Some(block) {
            println!("LINE {}\t{}", self.line_no, l.escape_debug());
        }
        self.distinct.insert(fnv(format!("{api}\t{text}").as_bytes()));
        if self.samples.len() < 3 && self.line_no % 50_021 == 7 {
            self.samples.push(l.clone());
        }
        self.block_hash = mix(self.block_hash, fnv(l.as_bytes()));
        self.line_no += 1;
        if self.line_no % BLOCK == 0 {
            self.hashes.push(self.block_hash);
            self.block_hash = 0;
        }
    }
}

/// Non-ASCII strings that some case-folding scheme maps to `k` (long s, Kelvin sign, sharp s,
/// ligatures, dotless i) and ASCII case variants: what key comparisons and look-ups answer for
/// them must not depend on the feature set.
fn key_probes(k: &str) -> Vec<String> {
    let mut v = vec![k.to_ascii_uppercase()];
    for (a, b) in [("s", "\u{17f}"), ("k", "\u{212a}"), ("ss", "\u{df}"), ("fi", "\u{fb01}"), ("i", "\u{131}"), ("ff", "\u{fb00}"), ("st", "\u{fb06}")] {
        if k.contains(a) {
            v.push(k.replacen(a, b, 1));
            v.push(k.to_ascii_uppercase().replacen(&a.to_ascii_uppercase(), b, 1));
        }
    }
    v
}

fn render<T: PurlShape>(p: &GenericPurl<T>) -> String {
    let mut quals: Vec<String> = p.qualifiers().iter().map(|(k, v)| format!("{}={}", k.as_str(), v)).collect();
    let mut probes = String::new();
    for (k, _) in p.qualifiers().iter().take(3) {
        for probe in key_probes(k.as_str()) {
            probes.push(if *k == probe.as_str() { 'E' } else { 'n' });
            probes.push(match k.partial_cmp(&probe.as_str()) {
                Some(std::cmp::Ordering::Less) => '<',
                Some(std::cmp::Ordering::Equal) => '=',
                Some(std::cmp::Ordering::Greater) => '>',
                None => '?',
            });
            probes.push(if p.qualifiers().contains_key(probe.as_str()) { 'C' } else { 'a' });
            probes.push(if p.qualifiers().get(probe.as_str()).is_some() { 'G' } else { 'a' });
        }
    }
    if !probes.is_empty() {
        quals.push(format!("[key probes {probes}]"));
    }
    // collection operations that parsing and building never call: retain_mut with values
    // emptied in the callback, and the typed checksum's remove / get with another letter case
    if !p.qualifiers().is_empty() {
        let mut q = p.qualifiers().clone();
        let mut i = 0;
        q.retain_mut(|_, v| {
            i += 1;
            if i % 2 == 1 {
                v.clear();
            }
            i % 3 != 0
        });
        let kept: Vec<String> = q.iter().map(|(k, v)| format!("{}={}", k.as_str(), v)).collect();
        quals.push(format!("[retain_mut {}]", kept.join("&")));
        use purl::qualifiers::well_known::Checksum;
        if let Ok(Some(mut c)) = p.qualifiers().try_get_typed::<Checksum>() {
            // (the map iterates in a per-process order: sort, or the transcript is not a function of the input)
            let mut algs: Vec<String> = c.algorithms().map(str::to_owned).collect();
            algs.sort();
            let mut seen: Vec<String> = Vec::new();
            for a in &algs {
                let up = a.to_uppercase();
                seen.push(format!("{}:{}", c.get_raw(&up).is_some(), c.get_raw(a).is_some()));
                c.remove(&up);
            }
            let mut left: Vec<String> = c.algorithms().map(str::to_owned).collect();
            left.sort();
            quals.push(format!("[checksum other-case get/remove {} left {}]", seen.join(","), left.join(",")));
        }
    }
    format!(
        "Ok({}|{:?}|{}|{:?}|{}|{:?}|{})",
        p.package_type().package_type(),
        p.namespace(),
        p.name(),
        p.version(),
        quals.join("&"),
        p.subpath(),
        p
    )
}

fn outcome<T, E: Debug + Display>(r: Result<GenericPurl<T>, E>) -> String
where
    T: PurlShape,
{
    match r {
        Ok(p) => render(&p),
        Err(e) => format!("Err({e:?}; {e})"),
    }
}

fn guarded(f: impl FnOnce() -> String) -> String {
    match panic::catch_unwind(AssertUnwindSafe(f)) {
        Ok(s) => s,
        Err(_) => "PANIC".to_string(),
    }
}

fn parse_line<T>(s: &str) -> String
where
    T: FromStr + PurlShape,
    <T as PurlShape>::Error: From<<T as FromStr>::Err> + Debug + Display,
{
    guarded(|| outcome(GenericPurl::<T>::from_str(s)))
}

fn build_line<T>(h: &Hist, mk: &dyn Fn(&str) -> Option<T>) -> String
where
    T: PurlShape + Clone,
    T::Error: Debug + Display,
{
    guarded(|| {
        let Some(t) = mk(&h.ty) else { return "skipped".into() };
        let mut b = GenericPurlBuilder::new(t, h.name.as_str());
        let mut setter_results = String::new();
        for c in &h.calls {
            b = match c {
                Call::Ns(s) => b.with_namespace(s.as_str()),
                Call::NoNs => b.without_namespace(),
                Call::Name(s) => b.with_name(s.as_str()),
                Call::Ver(s) => b.with_version(s.as_str()),
                Call::NoVer => b.without_version(),
                Call::Sub(s) => b.with_subpath(s.as_str()),
                Call::NoSub => b.without_subpath(),
                Call::Type(s) | Call::PartsType(s) => match mk(s) {
                    Some(t) => b.with_package_type(t),
                    None => b,
                },
                Call::Qual(k, v) => {
                    let keep = b.clone();
                    match b.with_qualifier(k.as_str(), v.as_str()) {
                        Ok(nb) => nb,
                        Err(e) => {
                            setter_results.push_str(&format!("[{e}]"));
                            keep
                        },
                    }
                },
                Call::NoQual(k) => b.without_qualifier(k.as_str()),
                Call::NoQuals => b.without_qualifiers(),
                Call::Typed(which, v) => {
                    use purl::qualifiers::well_known::{DownloadUrl, FileName, RepositoryUrl, VcsUrl};
                    let v = v.as_deref();
                    match which % 4 {
                        0 => b.with_typed_qualifier(v.map(RepositoryUrl::from)),
                        1 => b.with_typed_qualifier(v.map(DownloadUrl::from)),
                        2 => b.with_typed_qualifier(v.map(VcsUrl::from)),
                        _ => b.with_typed_qualifier(v.map(FileName::from)),
                    }
                },
                Call::Checksum(entries) => {
                    use purl::qualifiers::well_known::Checksum;
                    let keep = b.clone();
                    let cs = entries.as_ref().map(|es| {
                        let mut c = Checksum::default();
                        for (a, v) in es {
                            match v {
                                CsVal::Bytes(x) => c.insert(a, x.clone()),
                                CsVal::Raw(x) => c.insert_raw(a, x.clone()),
                            }
                        }
                        c
                    });
                    match b.try_with_typed_qualifier(cs) {
                        Ok(nb) => nb,
                        Err(e) => {
                            setter_results.push_str(&format!("[{e}]"));
                            keep
                        },
                    }
                },
                Call::PartsNs(s) => {
                    b.parts.namespace = s.as_str().into();
                    b
                },
                Call::PartsName(s) => {
                    b.parts.name = s.as_str().into();
                    b
                },
                Call::PartsVer(s) => {
                    b.parts.version = s.as_str().into();
                    b
                },
                Call::PartsSub(s) => {
                    b.parts.subpath = s.as_str().into();
                    b
                },
                Call::Rebuild => {
                    let keep = b.clone();
                    match b.build() {
                        Ok(p) => {
                            let _ = p.to_string();
                            p.into_builder()
                        },
                        Err(_) => keep,
                    }
                },
                Call::Reparse => {
                    let keep = b.clone();
                    match b.build() {
                        Ok(p) => match p.to_string().parse::<GenericPurl<String>>() {
                            Ok(q) => {
                                let mut nb = p.into_builder();
                                nb.parts = q.into_builder().parts;
                                nb
                            },
                            Err(_) => keep,
                        },
                        Err(_) => keep,
                    }
                },
                Call::PartsQualIndexMut(k, v) => {
                    if b.parts.qualifiers.contains_key(k.as_str()) {
                        b.parts.qualifiers[k.as_str()] = v.as_str().into();
                    }
                    b
                },
                Call::PartsQualGetMut(k, v) => {
                    if let Some(x) = b.parts.qualifiers.get_mut(k.as_str()) {
                        *x = v.as_str().into();
                    }
                    b
                },
                Call::PartsQualIterMutAppend(sfx) => {
                    for (_, x) in b.parts.qualifiers.iter_mut() {
                        x.push_str(sfx);
                    }
                    b
                },
                Call::PartsTruncate(f, n) => {
                    // (the small-string type is only nameable with the `smartstring` feature)
                    macro_rules! cut {
                        ($s:expr) => {{
                            let s = $s;
                            let mut n = (*n as usize).min(s.len());
                            while !s.is_char_boundary(n) {
                                n -= 1;
                            }
                            s.truncate(n);
                        }};
                    }
                    match f {
                        0 => cut!(&mut b.parts.namespace),
                        1 => cut!(&mut b.parts.name),
                        2 => cut!(&mut b.parts.version),
                        3 => cut!(&mut b.parts.subpath),
                        _ => {
                            for (_, v) in b.parts.qualifiers.iter_mut() {
                                cut!(v);
                            }
                        },
                    }
                    b
                },
                Call::PartsQualOrInsert(k, v) => {
                    if let Ok(e) = b.parts.qualifiers.entry(k.as_str()) {
                        e.or_insert(v.as_str());
                    }
                    b
                },
                Call::PartsQualEntry(k, v) => {
                    if let Ok(e) = b.parts.qualifiers.entry(k.as_str()) {
                        e.and_modify(|x| x.push_str(v)).or_insert(v.as_str());
                    }
                    b
                },
                Call::PartsQualsFromIter(pairs) => {
                    if let Ok(q) = purl::Qualifiers::try_from_iter(pairs.iter().map(|(k, v)| (k.as_str(), v.as_str()))) {
                        b.parts.qualifiers = q;
                    }
                    b
                },
                Call::PartsQual(k, v) => {
                    let _ = b.parts.qualifiers.insert(k.as_str(), v.as_str());
                    b
                },
            };
        }
        format!("{setter_results}{}", outcome(b.build()))
    })
}

/// A user-written package type whose string conversion is case-sensitive and remembers what
/// it was given: feature-dependent pre-processing of the type would show in the transcript.
#[derive(Clone)]
struct EchoShape {
    seen: String,
}

impl FromStr for EchoShape {
    type Err = purl::ParseError;

    fn from_str(s: &str) -> Result<Self, Self::Err> {
        if s.starts_with('x') || s.contains("Z") {
            Err(purl::ParseError::InvalidPackageType)
        } else {
            Ok(EchoShape { seen: s.to_string() })
        }
    }
}

impl PurlShape for EchoShape {
    type Error = purl::ParseError;

    fn package_type(&self) -> std::borrow::Cow<str> {
        std::borrow::Cow::Owned(self.seen.to_ascii_lowercase())
    }

    fn finish(&mut self, parts: &mut purl::PurlParts) -> Result<(), Self::Error> {
        // like the documented example: names of this type are lower-case
        let lowered: String = parts.name.chars().flat_map(char::to_lowercase).collect();
        parts.name = lowered.as_str().into();
        Ok(())
    }
}

fn custom_line(s: &str) -> String {
    guarded(|| match GenericPurl::<EchoShape>::from_str(s) {
        Ok(p) => format!("seen={:?} {}", p.package_type().seen, render(&p)),
        Err(e) => format!("Err({e:?}; {e})"),
    })
}

fn mk_string(s: &str) -> Option<String> {
    Some(s.to_string())
}

#[cfg(feature = "pt")]
fn mk_typed(s: &str) -> Option<purl::PackageType> {
    purl::PackageType::from_str(s).ok()
}

fn arg_after(args: &[String], flag: &str) -> Option<String> {
    args.iter().position(|a| a == flag).and_then(|i| args.get(i + 1).cloned())
}

fn main() {
    panic::set_hook(Box::new(|_| {}));
    let args: Vec<String> = std::env::args().skip(1).collect();
    let quick = arg_after(&args, "--tier").as_deref() != Some("thorough");
    let seed: u64 = arg_after(&args, "--seed").and_then(|s| s.parse().ok()).unwrap_or(1);
    let dump: Option<u64> = arg_after(&args, "--dump-block").and_then(|s| s.parse().ok());
    let dump_class = arg_after(&args, "--dump-class").unwrap_or_else(|| "G".into());
    // generic (type-agnostic API) and typed lines are hashed separately: the former exist in
    // every configuration, the latter only where the package-type feature is on
    let mut sink = Sink { distinct: Default::default(), samples: vec![], dump: if dump_class == "G" { dump } else { None }, line_no: 0, block_hash: 0, hashes: vec![], err_lines: 0, ok_lines: 0 };
    #[allow(unused_mut, unused_variables)]
    let mut tsink = Sink { distinct: Default::default(), samples: vec![], dump: if dump_class == "T" { dump } else { None }, line_no: 0, block_hash: 0, hashes: vec![], err_lines: 0, ok_lines: 0 };
    let mut inputs = 0u64;

    // (a) the bounded token language
    {
        let mut f = |i: u64, s: &str| {
            inputs += 1;
            sink.line("generic-parse", i, parse_line::<String>(s));
            #[cfg(feature = "pt")]
            tsink.line("typed-parse", i, parse_line::<purl::PackageType>(s));
        };
        gen::for_each_g1_reduced(quick, 0, 1, &mut f);
    }
    // (b) seeded legal spellings and single-fault variants
    let mut r = Rng::stream(seed, 0, "c17.g2");
    let n = if quick { 100_000 } else { 4_000_000 };
    for i in 0..n {
        let known = r.coin();
        let t = spell::gen_tuple(&mut r, known);
        let mask = spell::random_mask(&mut r);
        let sp = spell::spell(&mut r, &t, mask);
        let s = sp.assemble();
        inputs += 1;
        sink.line("generic-parse", 10_000_000_000 + i, parse_line::<String>(&s));
        sink.line("custom-parse", 10_000_000_000 + i, custom_line(&s));
        #[cfg(feature = "pt")]
        tsink.line("typed-parse", 10_000_000_000 + i, parse_line::<purl::PackageType>(&s));
        let kind = *r.pick(spell::FAULT_KINDS);
        if let Some(bad) = spell::inject(&mut r, &t, &sp, kind) {
            inputs += 1;
            sink.line("generic-parse", 20_000_000_000 + i, parse_line::<String>(&bad));
            #[cfg(feature = "pt")]
            tsink.line("typed-parse", 20_000_000_000 + i, parse_line::<purl::PackageType>(&bad));
        }
    }
    // (c) mutated corpus
    let (corpus, _) = gen::load_corpus();
    let mut r = Rng::stream(seed, 0, "c17.g10");
    for i in 0..(if quick { 60_000 } else { 2_000_000 }) {
        let s = gen::mutate(&mut r, &corpus);
        inputs += 1;
        sink.line("generic-parse", 30_000_000_000 + i, parse_line::<String>(&s));
        sink.line("custom-parse", 30_000_000_000 + i, custom_line(&s));
        #[cfg(feature = "pt")]
        tsink.line("typed-parse", 30_000_000_000 + i, parse_line::<purl::PackageType>(&s));
    }
    // (d) builder histories
    let mut r = Rng::stream(seed, 0, "c17.g4");
    for i in 0..(if quick { 80_000 } else { 3_000_000 }) {
        let h = hist::rand_hist(&mut r, false);
        inputs += 1;
        sink.line("generic-build", 40_000_000_000 + i, build_line::<String>(&h, &mk_string));
        let ht = hist::rand_hist(&mut r, true);
        #[cfg(feature = "pt")]
        {
            inputs += 1;
            tsink.line("typed-build", 50_000_000_000 + i, build_line::<purl::PackageType>(&ht, &mk_typed));
        }
        let _ = &ht;
    }
    // (e) observe / take apart / change one thing (also: shorten a long text in place) / build
    let mut r = Rng::stream(seed, 0, "c17.stale");
    for i in 0..(if quick { 40_000 } else { 1_500_000 }) {
        let h = hist::stale_hist(&mut r, false);
        inputs += 1;
        sink.line("generic-build", 60_000_000_000 + i, build_line::<String>(&h, &mk_string));
        let ht = hist::stale_hist(&mut r, true);
        #[cfg(feature = "pt")]
        {
            inputs += 1;
            tsink.line("typed-build", 70_000_000_000 + i, build_line::<purl::PackageType>(&ht, &mk_typed));
        }
        let _ = &ht;
    }
    for (class, sk) in [("G", &mut sink), ("T", &mut tsink)] {
        if sk.line_no % BLOCK != 0 {
            let h = sk.block_hash;
            sk.hashes.push(h);
        }
        if dump.is_none() {
            println!("LINES {class} {} ok={} err={} distinct={}", sk.line_no, sk.ok_lines, sk.err_lines, sk.distinct.len());
            for smp in &sk.samples {
                println!("SAMPLE {class} {}", smp.escape_debug());
            }
            for (i, h) in sk.hashes.iter().enumerate() {
                println!("BLOCK {class} {i} {h:016x}");
            }
        }
    }
    if dump.is_none() {
        println!("INPUTS {inputs}");
    }
}
