//! Observation layer: every call into `purl` made by a monitor goes through `guard`, which
//! records the call in the worker's event ring, runs it under `catch_unwind` with a panic hook
//! that captures message and location, and hands back a three-way outcome.  Also: snapshots of
//! PURL values taken through the public accessors only, and the per-worker statistics.

use std::cell::RefCell;
use std::collections::{BTreeMap, BTreeSet, HashMap, HashSet};
use std::fmt::Debug;
use std::panic::{self, AssertUnwindSafe};
use std::str::FromStr;
use std::sync::Once;

use purl::{GenericPurl, GenericPurlBuilder, PurlShape};
use serde::{Deserialize, Serialize};
use serde_json::{json, Value};

use crate::model::Comps;

// ---------------------------------------------------------------------------------------------
// Outcomes

#[derive(Clone, Debug, PartialEq, Eq)]
pub enum Out<T> {
    Ok(T),
    /// `Debug` rendering of the error value, e.g. `MissingRequiredField(Name)`,
    /// `Parse(InvalidEscape)`.
    Err(String),
    /// Panic message and location.
    Panic(String),
}

impl<T> Out<T> {
    pub fn is_ok(&self) -> bool {
        matches!(self, Out::Ok(_))
    }

    pub fn is_panic(&self) -> bool {
        matches!(self, Out::Panic(_))
    }

    pub fn ok(self) -> Option<T> {
        match self {
            Out::Ok(v) => Some(v),
            _ => None,
        }
    }

    pub fn as_ref(&self) -> Out<&T> {
        match self {
            Out::Ok(v) => Out::Ok(v),
            Out::Err(e) => Out::Err(e.clone()),
            Out::Panic(p) => Out::Panic(p.clone()),
        }
    }

    pub fn map<U>(self, f: impl FnOnce(T) -> U) -> Out<U> {
        match self {
            Out::Ok(v) => Out::Ok(f(v)),
            Out::Err(e) => Out::Err(e),
            Out::Panic(p) => Out::Panic(p),
        }
    }

    /// Short description without the value.
    pub fn kind(&self) -> String {
        match self {
            Out::Ok(_) => "Ok".into(),
            Out::Err(e) => format!("Err({e})"),
            Out::Panic(p) => format!("PANIC[{p}]"),
        }
    }
}

thread_local! {
    static LAST_PANIC: RefCell<Option<String>> = const { RefCell::new(None) };
    static EVENTS: RefCell<Vec<String>> = const { RefCell::new(Vec::new()) };
    static CALLS: RefCell<HashMap<&'static str, u64>> = RefCell::new(HashMap::new());
    static PANICS: RefCell<BTreeMap<String, u64>> = const { RefCell::new(BTreeMap::new()) };
}

static HOOK: Once = Once::new();

pub fn install_panic_hook() {
    HOOK.call_once(|| {
        panic::set_hook(Box::new(|info| {
            let msg = if let Some(s) = info.payload().downcast_ref::<&str>() {
                (*s).to_string()
            } else if let Some(s) = info.payload().downcast_ref::<String>() {
                s.clone()
            } else {
                "<non-string panic payload>".to_string()
            };
            let loc = info
                .location()
                .map(|l| {
                    let f = l.file();
                    let f = f.rsplit("/purl/src/").next().unwrap_or(f);
                    format!("{}:{}", f, l.line())
                })
                .unwrap_or_else(|| "?".into());
            let mut m: String = msg.chars().take(160).collect();
            m.push_str(" @ ");
            m.push_str(&loc);
            LAST_PANIC.with(|p| *p.borrow_mut() = Some(m));
        }));
    });
}

const RING: usize = 48;

pub fn event(e: String) {
    EVENTS.with(|ev| {
        let mut ev = ev.borrow_mut();
        if ev.len() >= RING * 2 {
            ev.drain(..RING);
        }
        ev.push(e);
    });
}

pub fn last_events(n: usize) -> Vec<String> {
    EVENTS.with(|ev| {
        let ev = ev.borrow();
        ev[ev.len().saturating_sub(n)..].to_vec()
    })
}

pub fn take_call_counts() -> BTreeMap<String, u64> {
    CALLS.with(|c| c.borrow().iter().map(|(k, v)| (k.to_string(), *v)).collect())
}

pub fn take_panic_counts() -> BTreeMap<String, u64> {
    PANICS.with(|c| c.borrow().clone())
}

/// Run one library call under observation.
pub fn guard<T>(op: &'static str, f: impl FnOnce() -> T) -> Out<T> {
    CALLS.with(|c| *c.borrow_mut().entry(op).or_insert(0) += 1);
    match panic::catch_unwind(AssertUnwindSafe(f)) {
        Ok(v) => Out::Ok(v),
        Err(_) => {
            let m = LAST_PANIC.with(|p| p.borrow_mut().take()).unwrap_or_else(|| "<no message>".into());
            // aggregated by call and panic location (messages may embed arbitrary input text)
            let loc = m.rsplit(" @ ").next().unwrap_or("?").to_string();
            PANICS.with(|c| *c.borrow_mut().entry(format!("{op} @ {loc}")).or_insert(0) += 1);
            event(format!("{op} -> PANIC {m}"));
            Out::Panic(m)
        },
    }
}

/// Like `guard`, for calls returning `Result`: flattens into `Out`.
pub fn guard_res<T, E: Debug>(op: &'static str, f: impl FnOnce() -> Result<T, E>) -> Out<T> {
    match guard(op, f) {
        Out::Ok(Ok(v)) => Out::Ok(v),
        Out::Ok(Err(e)) => Out::Err(format!("{e:?}")),
        Out::Err(e) => Out::Err(e),
        Out::Panic(p) => Out::Panic(p),
    }
}

// ---------------------------------------------------------------------------------------------
// Snapshots through the public accessors

#[derive(Clone, Debug, PartialEq, Eq, Hash, Serialize, Deserialize, Default)]
pub struct Snap {
    pub ty: String,
    pub ns: Option<String>,
    pub name: String,
    pub ver: Option<String>,
    pub quals: Vec<(String, String)>,
    pub sub: Option<String>,
}

impl Snap {
    pub fn of<T: PurlShape>(p: &GenericPurl<T>) -> Snap {
        Snap {
            ty: p.package_type().package_type().into_owned(),
            ns: p.namespace().map(str::to_owned),
            name: p.name().to_owned(),
            ver: p.version().map(str::to_owned),
            quals: p.qualifiers().iter().map(|(k, v)| (k.as_str().to_owned(), v.to_owned())).collect(),
            sub: p.subpath().map(str::to_owned),
        }
    }

    pub fn from_comps(c: &Comps) -> Snap {
        Snap {
            ty: c.ty.clone(),
            ns: c.ns_opt(),
            name: c.name.clone(),
            ver: c.ver.clone(),
            quals: c.quals.clone(),
            sub: c.sub_opt(),
        }
    }

    pub fn render(&self) -> String {
        crate::model::render(
            &self.ty,
            self.ns.as_deref(),
            &self.name,
            self.ver.as_deref(),
            &self.quals,
            self.sub.as_deref(),
        )
    }

    /// First field in which two snapshots differ.
    pub fn diff(&self, other: &Snap) -> Option<&'static str> {
        if self.ty != other.ty {
            Some("type")
        } else if self.ns != other.ns {
            Some("namespace")
        } else if self.name != other.name {
            Some("name")
        } else if self.ver != other.ver {
            Some("version")
        } else if self.quals != other.quals {
            Some("qualifiers")
        } else if self.sub != other.sub {
            Some("subpath")
        } else {
            None
        }
    }

    pub fn json(&self) -> Value {
        json!({"type": self.ty, "namespace": self.ns, "name": self.name, "version": self.ver,
               "qualifiers": self.quals, "subpath": self.sub})
    }
}

pub fn parse<T>(s: &str) -> Out<GenericPurl<T>>
where
    T: FromStr + PurlShape,
    <T as PurlShape>::Error: From<<T as FromStr>::Err> + Debug,
{
    event(format!("from_str({s:?})"));
    guard_res("GenericPurl::from_str", || GenericPurl::<T>::from_str(s))
}

pub fn build<T>(b: GenericPurlBuilder<T>) -> Out<GenericPurl<T>>
where
    T: PurlShape,
    <T as PurlShape>::Error: Debug,
{
    guard_res("GenericPurlBuilder::build", move || b.build())
}

pub fn show<T: PurlShape>(p: &GenericPurl<T>) -> Out<String> {
    guard("GenericPurl::to_string", || p.to_string())
}

/// The same value formatted with width, fill, alignment, precision and the alternate flag.
/// A `Display` may ignore these, pad the whole text, or cut it at the precision; it may not
/// apply them to a part of the text. Returns the first offending (format spec, output).
pub fn show_with_flags<T: PurlShape>(p: &GenericPurl<T>, plain: &str) -> Out<Option<(&'static str, String)>> {
    guard("format!(\"{:...}\", purl)", || {
        let n = plain.chars().count();
        // (format widths above u16::MAX make `format!` itself panic: not the library's doing)
        if n > 60_000 {
            return None;
        }
        let outs: [(&'static str, String, char); 7] = [
            ("{:<W}", format!("{:<w$}", p, w = n + 7), ' '),
            ("{:>W}", format!("{:>w$}", p, w = n + 7), ' '),
            ("{:*^W}", format!("{:*^w$}", p, w = n + 8), '*'),
            ("{:W}", format!("{:w$}", p, w = n + 3), ' '),
            ("{:12}", format!("{:12}", p), ' '),
            ("{:#}", format!("{:#}", p), ' '),
            ("{:.2}", format!("{:.2}", p), ' '),
        ];
        for (spec, o, fill) in outs {
            let ok = o == plain || o.trim_matches(fill) == plain.trim_matches(fill) || (spec == "{:.2}" && plain.starts_with(o.as_str()));
            if !ok {
                return Some((spec, o));
            }
        }
        None
    })
}

// ---------------------------------------------------------------------------------------------
// Per-worker statistics

#[derive(Clone, Debug, Serialize, Deserialize)]
pub struct Violation {
    pub monitor: String,
    pub signature: String,
    pub detail: String,
    pub case: Value,
    #[serde(default)]
    pub last_events: Vec<String>,
}

pub const DISTINCT_CAP: usize = 400_000;
pub const MAX_VIOLATIONS: usize = 20;
pub const MAX_SAMPLES: usize = 6;

#[derive(Default)]
pub struct Stats {
    pub evaluations: u64,
    pub counters: HashMap<&'static str, u64>,
    pub dyn_counters: BTreeMap<String, u64>,
    pub distinct: HashSet<u64>,
    pub distinct_capped: bool,
    pub samples: Vec<Value>,
    pub violations: Vec<Violation>,
    pub violations_total: u64,
    pub sets: BTreeMap<&'static str, BTreeSet<String>>,
    pub exhaustive: Vec<Value>,
}

impl Stats {
    pub fn count(&mut self, k: &'static str) {
        *self.counters.entry(k).or_insert(0) += 1;
    }

    pub fn add(&mut self, k: &'static str, n: u64) {
        *self.counters.entry(k).or_insert(0) += n;
    }

    pub fn count_dyn(&mut self, k: String) {
        *self.dyn_counters.entry(k).or_insert(0) += 1;
    }

    pub fn max(&mut self, k: &'static str, v: u64) {
        let e = self.counters.entry(k).or_insert(0);
        if v > *e {
            *e = v;
        }
    }

    /// Record one distinct non-trivial case (by 64-bit hash of its normal form).
    pub fn nontrivial(&mut self, h: u64) {
        if self.distinct.len() < DISTINCT_CAP {
            self.distinct.insert(h);
        } else {
            self.distinct_capped = true;
        }
    }

    pub fn set_insert(&mut self, set: &'static str, v: String) {
        let s = self.sets.entry(set).or_default();
        if s.len() < 4096 {
            s.insert(v);
        }
    }

    pub fn sample(&mut self, v: impl FnOnce() -> Value) {
        if self.samples.len() < MAX_SAMPLES {
            self.samples.push(v());
        }
    }

    pub fn has_signature(&self, sig: &str) -> bool {
        self.violations.iter().any(|v| v.signature == sig)
    }

    pub fn violation(&mut self, monitor: &str, signature: String, detail: String, case: Value) {
        self.violations_total += 1;
        if self.has_signature(&signature) || self.violations.len() >= MAX_VIOLATIONS {
            return;
        }
        self.violations.push(Violation {
            monitor: monitor.to_string(),
            signature,
            detail,
            case,
            last_events: last_events(12),
        });
    }
}

#[derive(Clone, Copy, PartialEq, Eq, Debug)]
pub enum Tier {
    Quick,
    Thorough,
}

pub struct Ctx {
    pub tier: Tier,
    pub seed: u64,
    pub worker: usize,
    pub nworkers: usize,
    /// Optional workload scale in percent (VERIF_SCALE), for sanitizer-speed runs.
    pub scale: u64,
    pub st: Stats,
}

impl Ctx {
    pub fn new(tier: Tier, seed: u64, worker: usize, nworkers: usize, scale: u64) -> Ctx {
        Ctx { tier, seed, worker, nworkers, scale, st: Stats::default() }
    }

    pub fn quick(&self) -> bool {
        self.tier == Tier::Quick
    }

    /// Pick the per-tier count, then this worker's share of it.
    pub fn share(&self, quick: u64, thorough: u64) -> u64 {
        let total = if self.quick() { quick } else { thorough };
        let total = (total * self.scale / 100).max(self.nworkers as u64);
        let base = total / self.nworkers as u64;
        base + u64::from((self.worker as u64) < total % self.nworkers as u64)
    }

    pub fn rng(&self, tag: &str) -> crate::rng::Rng {
        crate::rng::Rng::stream(self.seed, self.worker as u64, tag)
    }

    /// Does index `i` of an exhaustive space belong to this worker?
    pub fn mine(&self, i: u64) -> bool {
        i % self.nworkers as u64 == self.worker as u64
    }
}
