//! Executes generator-made histories against the real library (through the observation layer).

use std::fmt::Debug;

use purl::qualifiers::well_known::gem::Platform;
use purl::qualifiers::well_known::maven::{Classifier, Type as MavenType};
use purl::qualifiers::well_known::{Checksum, DownloadUrl, FileName, RepositoryUrl, VcsUrl};
use purl::{GenericPurl, GenericPurlBuilder, PurlShape, SmallString};

use crate::hist::{Call, CsVal, Hist};
use crate::obs::{guard, guard_res, Out};

pub fn make_checksum(entries: &[(String, CsVal)]) -> Checksum<'static> {
    let mut c = Checksum::default();
    for (a, v) in entries {
        match v {
            CsVal::Bytes(b) => c.insert(a, b.clone()),
            CsVal::Raw(s) => c.insert_raw(a, s.clone()),
        }
    }
    c
}

/// The parts the parser produces for a canonical string, for the type parameter at hand
/// (`Cow<str>` has no `FromStr`; its strings go through the `String` parser).
pub trait Reparse {
    fn reparse_parts(s: &str) -> Option<purl::PurlParts>;
}

impl Reparse for String {
    fn reparse_parts(s: &str) -> Option<purl::PurlParts> {
        s.parse::<GenericPurl<String>>().ok().map(|q| q.into_builder().parts)
    }
}

impl Reparse for SmallString {
    fn reparse_parts(s: &str) -> Option<purl::PurlParts> {
        s.parse::<GenericPurl<SmallString>>().ok().map(|q| q.into_builder().parts)
    }
}

impl Reparse for purl::PackageType {
    fn reparse_parts(s: &str) -> Option<purl::PurlParts> {
        s.parse::<purl::Purl>().ok().map(|q| q.into_builder().parts)
    }
}

impl Reparse for std::borrow::Cow<'_, str> {
    fn reparse_parts(s: &str) -> Option<purl::PurlParts> {
        String::reparse_parts(s)
    }
}

/// Outcome of one builder history.
pub struct HistRun<T> {
    /// (index of call, outcome) for the fallible setters
    pub setters: Vec<(usize, Out<()>)>,
    /// None if a setter panicked (the builder is lost)
    pub builder: Option<GenericPurlBuilder<T>>,
    pub panic: Option<String>,
}

/// Apply the calls of `h` to a fresh builder. A fallible setter that returns `Err` consumes
/// the builder; like a user who kept a clone, we continue from the state before the call.
pub fn run_hist<'a, T>(h: &'a Hist, mk: &dyn Fn(&'a str) -> Option<T>) -> Option<HistRun<T>>
where
    T: PurlShape + Clone + Reparse,
{
    // the two documented ways to start a builder, chosen by the history (replays are stable)
    let mut b = if (h.name.len() + h.calls.len()) % 2 == 0 {
        GenericPurlBuilder::new(mk(&h.ty)?, h.name.as_str())
    } else {
        GenericPurl::<T>::builder(mk(&h.ty)?, h.name.as_str())
    };
    let mut setters = Vec::new();
    for (i, c) in h.calls.iter().enumerate() {
        crate::obs::event(format!("builder.{c:?}"));
        let step: Out<GenericPurlBuilder<T>> = match c {
            Call::Ns(s) => guard("with_namespace", || b.with_namespace(s.as_str())),
            Call::NoNs => guard("without_namespace", || b.without_namespace()),
            Call::Name(s) => guard("with_name", || b.with_name(s.as_str())),
            Call::Ver(s) => guard("with_version", || b.with_version(s.as_str())),
            Call::NoVer => guard("without_version", || b.without_version()),
            Call::Sub(s) => guard("with_subpath", || b.with_subpath(s.as_str())),
            Call::NoSub => guard("without_subpath", || b.without_subpath()),
            Call::Type(s) => {
                let t = mk(s)?;
                guard("with_package_type", || b.with_package_type(t))
            },
            Call::Qual(k, v) => {
                let keep = b.clone();
                match guard_res("with_qualifier", || b.with_qualifier(k.as_str(), v.as_str())) {
                    Out::Ok(nb) => {
                        setters.push((i, Out::Ok(())));
                        Out::Ok(nb)
                    },
                    Out::Err(e) => {
                        setters.push((i, Out::Err(e)));
                        Out::Ok(keep)
                    },
                    Out::Panic(p) => Out::Panic(p),
                }
            },
            Call::NoQual(k) => guard("without_qualifier", || b.without_qualifier(k.as_str())),
            Call::NoQuals => guard("without_qualifiers", || b.without_qualifiers()),
            Call::Typed(which, v) => {
                let v = v.as_deref();
                guard("with_typed_qualifier", || match which {
                    0 => b.with_typed_qualifier(v.map(RepositoryUrl::from)),
                    1 => b.with_typed_qualifier(v.map(DownloadUrl::from)),
                    2 => b.with_typed_qualifier(v.map(VcsUrl::from)),
                    3 => b.with_typed_qualifier(v.map(FileName::from)),
                    4 => b.with_typed_qualifier(v.map(Classifier::from)),
                    5 => b.with_typed_qualifier(v.map(MavenType::from)),
                    6 => b.with_typed_qualifier(v.map(Platform::from)),
                    _ => b.with_typed_qualifier(v.map(crate::mon::c11::MixedKey::from)),
                })
            },
            Call::Checksum(entries) => {
                let keep = b.clone();
                let cs = match entries {
                    Some(e) => match guard("Checksum::insert*", || make_checksum(e)) {
                        Out::Ok(c) => Some(c),
                        Out::Panic(p) => return Some(HistRun { setters, builder: None, panic: Some(p) }),
                        Out::Err(_) => unreachable!(),
                    },
                    None => None,
                };
                match guard_res("try_with_typed_qualifier", || b.try_with_typed_qualifier(cs)) {
                    Out::Ok(nb) => {
                        setters.push((i, Out::Ok(())));
                        Out::Ok(nb)
                    },
                    Out::Err(e) => {
                        setters.push((i, Out::Err(e)));
                        Out::Ok(keep)
                    },
                    Out::Panic(p) => Out::Panic(p),
                }
            },
            Call::PartsNs(s) => {
                b.parts.namespace = SmallString::from(s.as_str());
                Out::Ok(b)
            },
            Call::PartsName(s) => {
                b.parts.name = SmallString::from(s.as_str());
                Out::Ok(b)
            },
            Call::PartsVer(s) => {
                b.parts.version = SmallString::from(s.as_str());
                Out::Ok(b)
            },
            Call::PartsSub(s) => {
                b.parts.subpath = SmallString::from(s.as_str());
                Out::Ok(b)
            },
            Call::PartsType(s) => {
                b.package_type = mk(s)?;
                Out::Ok(b)
            },
            Call::Rebuild => {
                let keep = b.clone();
                match crate::obs::guard("build() then into_builder()", || {
                    b.build().map(|p| {
                        // observe the value the way users do before taking it apart again
                        use std::hash::{Hash, Hasher};
                        let mut h = std::collections::hash_map::DefaultHasher::new();
                        p.qualifiers().hash(&mut h);
                        let q = p.clone();
                        let _ = (p.to_string().len(), format!("{:?}", p.qualifiers()).len(), h.finish(), q.qualifiers() == p.qualifiers());
                        p.into_builder()
                    })
                }) {
                    Out::Ok(Ok(nb)) => Out::Ok(nb),
                    Out::Ok(Err(_)) => Out::Ok(keep),
                    Out::Err(e) => Out::Err(e),
                    Out::Panic(p) => Out::Panic(p),
                }
            },
            Call::Reparse => {
                let keep = b.clone();
                match crate::obs::guard("build(), to_string(), parse(), into_builder()", || {
                    b.build().map(|p| {
                        let parts = T::reparse_parts(&p.to_string());
                        let mut nb = p.into_builder();
                        match parts {
                            Some(parts) => {
                                nb.parts = parts;
                                Some(nb)
                            },
                            None => None,
                        }
                    })
                }) {
                    Out::Ok(Ok(Some(nb))) => Out::Ok(nb),
                    // the canonical string of a built value was refused: C09's business (its
                    // re-parse clause reports it); here the history continues from the builder
                    Out::Ok(Ok(None)) | Out::Ok(Err(_)) => Out::Ok(keep),
                    Out::Err(e) => Out::Err(e),
                    Out::Panic(p) => Out::Panic(p),
                }
            },
            Call::PartsQualIndexMut(k, v) => guard("IndexMut", || {
                if b.parts.qualifiers.contains_key(k.as_str()) {
                    b.parts.qualifiers[k.as_str()] = SmallString::from(v.as_str());
                }
                b
            }),
            Call::PartsQualGetMut(k, v) => guard("get_mut", || {
                if let Some(x) = b.parts.qualifiers.get_mut(k.as_str()) {
                    *x = SmallString::from(v.as_str());
                }
                b
            }),
            Call::PartsQualIterMutAppend(sfx) => guard("iter_mut", || {
                for (_, x) in b.parts.qualifiers.iter_mut() {
                    x.push_str(sfx);
                }
                b
            }),
            Call::PartsQualEntry(k, v) => guard("entry", || {
                if let Ok(e) = b.parts.qualifiers.entry(k.as_str()) {
                    e.and_modify(|x| x.push_str(v)).or_insert(v.as_str());
                }
                b
            }),
            Call::PartsTruncate(f, n) => guard("truncate", || {
                fn cut(s: &mut SmallString, n: usize) {
                    let mut n = n.min(s.len());
                    while !s.is_char_boundary(n) {
                        n -= 1;
                    }
                    s.truncate(n);
                }
                let n = *n as usize;
                match f {
                    0 => cut(&mut b.parts.namespace, n),
                    1 => cut(&mut b.parts.name, n),
                    2 => cut(&mut b.parts.version, n),
                    3 => cut(&mut b.parts.subpath, n),
                    _ => b.parts.qualifiers.iter_mut().for_each(|(_, v)| cut(v, n)),
                }
                b
            }),
            Call::PartsQualOrInsert(k, v) => guard("entry.or_insert", || {
                if let Ok(e) = b.parts.qualifiers.entry(k.as_str()) {
                    if v.len() % 2 == 0 {
                        e.or_insert(v.as_str());
                    } else {
                        e.or_insert_with(|| SmallString::from(v.as_str()));
                    }
                }
                b
            }),
            Call::PartsQualsFromIter(pairs) => guard("Qualifiers::try_from_iter", || {
                if let Ok(q) = purl::Qualifiers::try_from_iter(crate::mon::c11::Hinted::new(pairs.iter().map(|(k, v)| (k.as_str(), v.as_str())), pairs)) {
                    b.parts.qualifiers = q;
                }
                b
            }),
            Call::PartsQual(k, v) => match guard("Qualifiers::insert", || {
                let _ = b.parts.qualifiers.insert(k.as_str(), v.as_str());
                b
            }) {
                Out::Ok(nb) => Out::Ok(nb),
                o => o,
            },
        };
        match step {
            Out::Ok(nb) => b = nb,
            Out::Panic(p) => return Some(HistRun { setters, builder: None, panic: Some(p) }),
            Out::Err(_) => unreachable!(),
        }
    }
    Some(HistRun { setters, builder: Some(b), panic: None })
}

pub fn build_of<T>(b: GenericPurlBuilder<T>) -> Out<GenericPurl<T>>
where
    T: PurlShape,
    T::Error: Debug,
{
    crate::obs::build(b)
}

// ---------------------------------------------------------------------------------------------
// Type-parameter constructors

pub fn mk_string(s: &str) -> Option<String> {
    Some(s.to_string())
}

pub fn mk_small(s: &str) -> Option<SmallString> {
    Some(SmallString::from(s))
}

pub fn mk_cow_owned<'a>(s: &'a str) -> Option<std::borrow::Cow<'a, str>> {
    Some(std::borrow::Cow::Owned(s.to_string()))
}

pub fn mk_cow_borrowed<'a>(s: &'a str) -> Option<std::borrow::Cow<'a, str>> {
    Some(std::borrow::Cow::Borrowed(s))
}

/// By exact lower-case name; deliberately not via `PackageType::from_str`.
pub fn mk_typed(s: &str) -> Option<purl::PackageType> {
    use purl::PackageType::*;
    Some(match s {
        "cargo" => Cargo,
        "gem" => Gem,
        "golang" => Golang,
        "maven" => Maven,
        "npm" => Npm,
        "nuget" => NuGet,
        "pypi" => PyPI,
        _ => return None,
    })
}

pub const ALL_TYPES: [purl::PackageType; 7] = [
    purl::PackageType::Cargo,
    purl::PackageType::Gem,
    purl::PackageType::Golang,
    purl::PackageType::Maven,
    purl::PackageType::Npm,
    purl::PackageType::NuGet,
    purl::PackageType::PyPI,
];
