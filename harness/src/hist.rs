//! G4 — builder call histories, and R7 — the builder model (last write wins, fields
//! independent, generic post-conditions). Library independent.

use std::collections::BTreeMap;

use serde::{Deserialize, Serialize};

use crate::gen::mixed_string;
use crate::model::{self, ascii_lower, key_ok, lower, type_chars_ok};
use crate::rng::Rng;

/// Keys of the typed qualifiers used by the workloads; index 7 is a harness-defined type whose
/// declared KEY is "Mixed_Key.X-1" (valid, not lower-case).
pub const TYPED_KEYS: [&str; 8] =
    ["repository_url", "download_url", "vcs_url", "file_name", "classifier", "type", "platform", "mixed_key.x-1"];

#[derive(Clone, Debug, Serialize, Deserialize, PartialEq, Eq, Hash)]
pub enum CsVal {
    /// `Checksum::insert(alg, bytes)`
    Bytes(Vec<u8>),
    /// `Checksum::insert_raw(alg, text)` — not validated by the library until serialised
    Raw(String),
}

#[derive(Clone, Debug, Serialize, Deserialize, PartialEq, Eq, Hash)]
pub enum Call {
    Ns(String),
    NoNs,
    Name(String),
    Ver(String),
    NoVer,
    Sub(String),
    NoSub,
    Type(String),
    Qual(String, String),
    NoQual(String),
    NoQuals,
    /// with_typed_qualifier::<TYPED_KEYS[i]>(Some(v) | None)
    Typed(u8, Option<String>),
    /// try_with_typed_qualifier(Some(Checksum built by these inserts) | None)
    Checksum(Option<Vec<(String, CsVal)>>),
    PartsNs(String),
    PartsName(String),
    PartsVer(String),
    PartsSub(String),
    PartsType(String),
    /// `b.parts.qualifiers.insert(k, v)`, result ignored
    PartsQual(String, String),
    /// `if let Ok(q) = Qualifiers::try_from_iter(pairs) { b.parts.qualifiers = q }`
    PartsQualsFromIter(Vec<(String, String)>),
    /// `match b.clone().build() { Ok(p) => p.into_builder(), Err(_) => b }` — a detour through
    /// an immutable PURL in the middle of a history; the PURL is printed, debug-printed, hashed
    /// and cloned before it is taken apart again (anything cached by those must not outlive a
    /// later mutation)
    Rebuild,
    /// like `Rebuild`, but the PURL is printed and parsed again, and the parser's parts are
    /// what the builder continues with
    Reparse,
    /// `if q.contains_key(k) { q[k] = v.into() }` on `b.parts.qualifiers` (IndexMut)
    PartsQualIndexMut(String, String),
    /// `if let Some(x) = q.get_mut(k) { *x = v.into() }`
    PartsQualGetMut(String, String),
    /// `for (_, x) in q.iter_mut() { x.push_str(s) }`
    PartsQualIterMutAppend(String),
    /// `if let Ok(e) = q.entry(k) { e.and_modify(|x| x.push_str(v)).or_insert(v) }`
    PartsQualEntry(String, String),
    /// `if let Ok(e) = q.entry(k) { e.or_insert(v) }` (`or_insert_with` when `v` has odd length)
    PartsQualOrInsert(String, String),
    /// shorten a stored text in place (`truncate` to at most `n` bytes, on a character
    /// boundary): field 0 namespace, 1 name, 2 version, 3 subpath, 4 every qualifier value
    PartsTruncate(u8, u16),
}

/// Field touched by a call, for the commutation check ("calls on different fields commute").
#[derive(Clone, Debug, PartialEq, Eq)]
pub enum Field {
    Ns,
    Name,
    Ver,
    Sub,
    Type,
    Qual(String),
    AllQuals,
    /// touches every field (never commutes)
    Everything,
    None,
}

impl Call {
    pub fn field(&self) -> Field {
        match self {
            Call::Ns(_) | Call::NoNs | Call::PartsNs(_) => Field::Ns,
            Call::Name(_) | Call::PartsName(_) => Field::Name,
            Call::Ver(_) | Call::NoVer | Call::PartsVer(_) => Field::Ver,
            Call::Sub(_) | Call::NoSub | Call::PartsSub(_) => Field::Sub,
            Call::Type(_) | Call::PartsType(_) => Field::Type,
            Call::PartsQualIterMutAppend(_) => Field::AllQuals,
            Call::PartsTruncate(f, _) => match f {
                0 => Field::Ns,
                1 => Field::Name,
                2 => Field::Ver,
                3 => Field::Sub,
                _ => Field::AllQuals,
            },
            Call::Qual(k, _) | Call::NoQual(k) | Call::PartsQual(k, _) | Call::PartsQualIndexMut(k, _) | Call::PartsQualGetMut(k, _) | Call::PartsQualEntry(k, _) | Call::PartsQualOrInsert(k, _) => {
                if key_ok(k) {
                    Field::Qual(ascii_lower(k))
                } else {
                    Field::None
                }
            },
            Call::NoQuals | Call::PartsQualsFromIter(_) => Field::AllQuals,
            Call::Rebuild | Call::Reparse => Field::Everything,
            Call::Typed(i, _) => Field::Qual(TYPED_KEYS[*i as usize].to_string()),
            Call::Checksum(_) => Field::Qual("checksum".into()),
        }
    }

    pub fn commutes_with(&self, other: &Call) -> bool {
        match (self.field(), other.field()) {
            (Field::Everything, _) | (_, Field::Everything) => false,
            (Field::None, _) | (_, Field::None) => true,
            (Field::AllQuals, Field::Qual(_)) | (Field::Qual(_), Field::AllQuals) => false,
            (a, b) => a != b,
        }
    }
}

#[derive(Clone, Debug, Serialize, Deserialize, PartialEq, Eq, Hash)]
pub struct Hist {
    pub ty: String,
    pub name: String,
    pub calls: Vec<Call>,
}

// ---------------------------------------------------------------------------------------------
// R7 — model

#[derive(Clone, Debug, Default, PartialEq, Eq)]
pub struct BModel {
    /// the type parameter is the built-in enum (its rules apply at build time)
    pub typed: bool,
    pub ty: String,
    pub ns: String,
    pub name: String,
    pub ver: String,
    pub sub: String,
    /// ascii-lower key -> value (possibly empty until build)
    pub quals: BTreeMap<String, String>,
}

#[derive(Clone, Debug, PartialEq, Eq)]
pub enum SetterExpect {
    Infallible,
    Ok,
    Err(&'static str),
}

/// Model of the typed checksum built by a sequence of inserts: Ok(text) or Err.
pub fn checksum_inserts_text(entries: &[(String, CsVal)]) -> Result<String, &'static str> {
    let mut m: BTreeMap<String, String> = BTreeMap::new();
    for (a, v) in entries {
        let h = match v {
            CsVal::Bytes(b) => hex::encode(b),
            CsVal::Raw(s) => s.clone(),
        };
        m.insert(lower(a), h);
    }
    for h in m.values() {
        if h.len() % 2 != 0 || !h.bytes().all(|b| b.is_ascii_hexdigit()) {
            return Err("InvalidQualifier");
        }
    }
    Ok(model::checksum_text(&m))
}

impl BModel {
    pub fn new(ty: &str, name: &str) -> BModel {
        BModel { ty: ty.into(), name: name.into(), ..Default::default() }
    }

    pub fn apply(&mut self, c: &Call) -> SetterExpect {
        match c {
            Call::Ns(s) | Call::PartsNs(s) => self.ns = s.clone(),
            Call::NoNs => self.ns.clear(),
            Call::Name(s) | Call::PartsName(s) => self.name = s.clone(),
            Call::Ver(s) | Call::PartsVer(s) => self.ver = s.clone(),
            Call::NoVer => self.ver.clear(),
            Call::Sub(s) | Call::PartsSub(s) => self.sub = s.clone(),
            Call::NoSub => self.sub.clear(),
            Call::Type(s) | Call::PartsType(s) => self.ty = s.clone(),
            Call::Qual(k, v) => {
                if key_ok(k) {
                    self.quals.insert(ascii_lower(k), v.clone());
                    return SetterExpect::Ok;
                }
                return SetterExpect::Err("InvalidQualifier");
            },
            Call::PartsQual(k, v) => {
                if key_ok(k) {
                    self.quals.insert(ascii_lower(k), v.clone());
                }
            },
            Call::NoQual(k) => {
                if key_ok(k) {
                    self.quals.remove(&ascii_lower(k));
                }
            },
            Call::NoQuals => self.quals.clear(),
            Call::PartsQualIndexMut(k, v) | Call::PartsQualGetMut(k, v) => {
                if key_ok(k) {
                    if let Some(x) = self.quals.get_mut(&ascii_lower(k)) {
                        *x = v.clone();
                    }
                }
            },
            Call::PartsQualIterMutAppend(sfx) => {
                for x in self.quals.values_mut() {
                    x.push_str(sfx);
                }
            },
            Call::PartsQualEntry(k, v) => {
                if key_ok(k) {
                    self.quals.entry(ascii_lower(k)).and_modify(|x| x.push_str(v)).or_insert_with(|| v.clone());
                }
            },
            Call::PartsTruncate(f, n) => {
                let cut = |s: &mut String| {
                    let mut n = (*n as usize).min(s.len());
                    while !s.is_char_boundary(n) {
                        n -= 1;
                    }
                    s.truncate(n);
                };
                match f {
                    0 => cut(&mut self.ns),
                    1 => cut(&mut self.name),
                    2 => cut(&mut self.ver),
                    3 => cut(&mut self.sub),
                    _ => self.quals.values_mut().for_each(cut),
                }
            },
            Call::PartsQualOrInsert(k, v) => {
                // an entry holding "" is occupied all the same
                if key_ok(k) {
                    self.quals.entry(ascii_lower(k)).or_insert_with(|| v.clone());
                }
            },
            Call::Rebuild => {
                // a successful build normalises the state; a refused one leaves it alone
                if let Ok(b) = expected_build(self, self.typed) {
                    self.ty = b.ty;
                    self.name = b.name;
                    self.quals = b.quals.into_iter().collect();
                }
            },
            Call::Reparse => {
                // as Rebuild; in addition the parser keeps only the significant segments
                if let Ok(b) = expected_build(self, self.typed) {
                    self.ty = b.ty;
                    self.name = b.name;
                    self.quals = b.quals.into_iter().collect();
                    self.ns = b.ns_segs.join("/");
                    self.sub = b.sub_segs.join("/");
                }
            },
            Call::PartsQualsFromIter(pairs) => {
                let mut n = BTreeMap::new();
                let mut ok = true;
                for (k, v) in pairs {
                    if !key_ok(k) || n.insert(ascii_lower(k), v.clone()).is_some() {
                        ok = false;
                        break;
                    }
                }
                if ok {
                    self.quals = n;
                }
            },
            Call::Typed(i, v) => match v {
                Some(v) => {
                    self.quals.insert(TYPED_KEYS[*i as usize].into(), v.clone());
                },
                None => {
                    self.quals.remove(TYPED_KEYS[*i as usize]);
                },
            },
            Call::Checksum(None) => {
                self.quals.remove("checksum");
                return SetterExpect::Ok;
            },
            Call::Checksum(Some(entries)) => match checksum_inserts_text(entries) {
                Ok(text) => {
                    self.quals.insert("checksum".into(), text);
                    return SetterExpect::Ok;
                },
                Err(e) => return SetterExpect::Err(e),
            },
        }
        SetterExpect::Infallible
    }
}

/// What `build()` must produce, by C09/C04.
#[derive(Clone, Debug, PartialEq, Eq)]
pub struct BuiltExpect {
    pub ty: String,
    pub ns_segs: Vec<String>,
    pub name: String,
    pub ver: Option<String>,
    pub quals: Vec<(String, String)>,
    pub sub_segs: Vec<String>,
}

pub fn sig_ns(s: &str) -> Vec<String> {
    s.split('/').filter(|x| !x.is_empty()).map(str::to_owned).collect()
}

pub fn sig_sub(s: &str) -> Vec<String> {
    s.split('/').filter(|x| !x.is_empty() && *x != "." && *x != "..").map(str::to_owned).collect()
}

/// `typed`: the type parameter is the built-in enum (type rules apply, errors are wrapped).
/// Returns Err(list of error renderings any of which is acceptable) or the expected value.
pub fn expected_build(m: &BModel, typed: bool) -> Result<BuiltExpect, Vec<String>> {
    let mut errs: Vec<String> = Vec::new();
    let wrap = |e: &str| if typed { format!("Parse({e})") } else { e.to_string() };
    let ty = ascii_lower(&m.ty);
    let mut name = m.name.clone();
    if typed {
        debug_assert!(model::known_type(&ty));
        if ty == "maven" && sig_ns(&m.ns).is_empty() {
            errs.push("MissingRequiredField(Namespace)".into());
        }
        name = model::typed_name(&ty, &name);
    } else if !type_chars_ok(&m.ty) {
        errs.push(wrap("InvalidPackageType"));
    }
    if name.is_empty() {
        errs.push(wrap("MissingRequiredField(Name)"));
    }
    let mut quals: Vec<(String, String)> = Vec::new();
    for (k, v) in &m.quals {
        if v.is_empty() {
            continue;
        }
        if k == "checksum" {
            match model::checksum_parse(v) {
                Ok(cm) => quals.push((k.clone(), model::checksum_text(&cm))),
                Err(_) => errs.push(wrap("InvalidQualifier")),
            }
        } else {
            quals.push((k.clone(), v.clone()));
        }
    }
    if !errs.is_empty() {
        return Err(errs);
    }
    Ok(BuiltExpect {
        ty,
        ns_segs: sig_ns(&m.ns),
        name,
        ver: if m.ver.is_empty() { None } else { Some(m.ver.clone()) },
        quals,
        sub_segs: sig_sub(&m.sub),
    })
}

// ---------------------------------------------------------------------------------------------
// G4 — generation

/// Value universe U of the exhaustive part.
pub const U_VALUES: &[&str] = &[
    "", "a", "A", "/", "a/b", "//", ".", "..", "a/../b", "%", "%41", "@", "?", "#", "&", "=", "a&b=c", " ", "+", "é",
    "ǅ", "-_.", "a:00", "B:ff,a:00", ":", ",", "...", "a/.../b", "a:b:00", "a:+a",
];

pub const U_KEYS: &[&str] = &["k", "K", "checksum", "Checksum", "a.b-c_1", "", "!", "é", "k%", "\u{212A}"];

pub const U_TYPES_GENERIC: &[&str] = &["t", "T", "tT", "t1", "T+", "a.b-c", "1t", "", "!", "t/", "é", "T%41", "npm", "MAVEN"];

/// All single call forms over the universe (used for exhaustive short histories).
pub fn universe_calls(typed: bool) -> Vec<Call> {
    let mut v = vec![Call::NoNs, Call::NoVer, Call::NoSub, Call::NoQuals, Call::Checksum(None)];
    for s in U_VALUES {
        let s = s.to_string();
        v.push(Call::Ns(s.clone()));
        v.push(Call::Name(s.clone()));
        v.push(Call::Ver(s.clone()));
        v.push(Call::Sub(s.clone()));
        v.push(Call::Typed(0, Some(s.clone())));
        v.push(Call::PartsNs(s.clone()));
        v.push(Call::PartsName(s.clone()));
        for k in U_KEYS {
            v.push(Call::Qual(k.to_string(), s.clone()));
        }
        v.push(Call::PartsQual("checksum".into(), s.clone()));
    }
    for k in U_KEYS {
        v.push(Call::NoQual(k.to_string()));
    }
    v.push(Call::Typed(0, None));
    v.push(Call::Rebuild);
    v.push(Call::Reparse);
    for k in ["k", "K", "checksum", "!"] {
        v.push(Call::PartsQualIndexMut(k.into(), "im".into()));
        v.push(Call::PartsQualGetMut(k.into(), "".into()));
        v.push(Call::PartsQualEntry(k.into(), "e".into()));
        v.push(Call::PartsQualOrInsert(k.into(), "o".into()));
    }
    v.push(Call::PartsQualIterMutAppend("+".into()));
    for f in 0..5u8 {
        v.push(Call::PartsTruncate(f, 0));
        v.push(Call::PartsTruncate(f, 1));
    }
    v.push(Call::Typed(4, Some("x".into())));
    v.push(Call::Typed(7, Some("x".into())));
    v.push(Call::Typed(7, None));
    if typed {
        for t in model::KNOWN_TYPES {
            v.push(Call::Type(t.to_string()));
        }
    } else {
        for t in U_TYPES_GENERIC {
            v.push(Call::Type(t.to_string()));
        }
    }
    v.push(Call::Checksum(Some(vec![])));
    v.push(Call::Checksum(Some(vec![("B".into(), CsVal::Bytes(vec![0xff])), ("a".into(), CsVal::Bytes(vec![0]))])));
    v.push(Call::Checksum(Some(vec![("a".into(), CsVal::Raw("zz".into()))])));
    v.push(Call::Checksum(Some(vec![("a".into(), CsVal::Raw("ABC".into()))])));
    v.push(Call::Checksum(Some(vec![("ǅ".into(), CsVal::Bytes(vec![1])), ("ǆ".into(), CsVal::Raw("AB".into()))])));
    v
}

fn rand_value(r: &mut Rng) -> String {
    if r.chance(1, 12) {
        return crate::gen::boundary_string(r, false);
    }
    if r.chance(1, 250) {
        return crate::spell::pow2_len_string(r, false);
    }
    match r.below(11) {
        10 => {
            // a dictionary token alone or inside plain text
            let t = crate::gen::dict_token(r);
            match r.below(3) {
                0 => t.to_string(),
                1 => format!("{}{t}", mixed_string(r, 1, 4, 0)),
                _ => format!("{}{t}{}", mixed_string(r, 0, 3, 0), mixed_string(r, 1, 4, 20)),
            }
        },
        0 => String::new(),
        1..=3 => r.pick(U_VALUES).to_string(),
        4..=5 => mixed_string(r, 1, 6, 0),
        6..=8 => mixed_string(r, 1, 10, 60),
        _ => mixed_string(r, 10, 60, 40),
    }
}

fn rand_key(r: &mut Rng) -> String {
    match r.below(11) {
        0..=2 => r.pick(U_KEYS).to_string(),
        3..=6 => crate::spell::gen_key(r),
        7 => r.pick(&TYPED_KEYS).to_string(),
        10 => {
            let k = r.pick(&TYPED_KEYS).to_string();
            crate::spell::near_key(r, &k)
        },
        8 => r.pick(&["checksum", "CHECKSUM", "CheckSum"]).to_string(),
        _ => mixed_string(r, 0, 5, 50),
    }
}

pub fn rand_cs_entries(r: &mut Rng) -> Vec<(String, CsVal)> {
    let n = *r.pick(&[0usize, 1, 1, 2, 3, 6]);
    let mut v = Vec::new();
    for _ in 0..n {
        let mut a = match r.below(7) {
            6 => {
                // boundary length, spelled in the case whose UTF-8 length differs
                let a = crate::spell::edge_len_alg(r);
                a.chars().map(|c| match c { 'ⱥ' => 'Ⱥ', 'ⱦ' => 'Ⱦ', 'k' if r.coin() => '\u{212A}', 'ω' if r.coin() => '\u{2126}', 'å' if r.coin() => '\u{212B}', c => c }).collect()
            },
            0 => crate::spell::gen_alg(r).to_uppercase(),
            1 => mixed_string(r, 0, 6, 50),
            2 => r.pick(&["ǅ", "ǆ", "Ǆ", "İ", "ſ", "ᾈ"]).to_string(),
            _ => crate::spell::gen_alg(r),
        };
        a.retain(|c| c != ',');
        let val = match r.below(8) {
            0 => CsVal::Raw(r.pick(&["zz", "0", "ABCDEF", "abc", "", "0g", "é", " 0"]).to_string()),
            1 => CsVal::Raw(hex::encode((0..r.below(8)).map(|_| r.below(256) as u8).collect::<Vec<u8>>()).to_uppercase()),
            _ => CsVal::Bytes((0..*r.pick(&[0usize, 1, 4, 20, 32])).map(|_| r.below(256) as u8).collect()),
        };
        v.push((a, val));
    }
    v
}

pub fn rand_call(r: &mut Rng, typed: bool) -> Call {
    match r.below(49) {
        0..=3 => Call::Ns(rand_value(r)),
        4 => Call::NoNs,
        5..=8 => Call::Name(rand_value(r)),
        9..=11 => Call::Ver(if r.chance(1, 4) { r.pick(crate::gen::VERSION_VOCABULARY).to_string() } else { rand_value(r) }),
        12 => Call::NoVer,
        13..=15 => Call::Sub(rand_value(r)),
        16 => Call::NoSub,
        17..=18 => {
            if typed {
                Call::Type(r.pick(&model::KNOWN_TYPES).to_string())
            } else if r.coin() {
                Call::Type(r.pick(U_TYPES_GENERIC).to_string())
            } else {
                Call::Type(crate::spell::gen_type(r))
            }
        },
        19..=24 => {
            let k = rand_key(r);
            let voc = crate::gen::key_vocabulary(&ascii_lower(&k));
            // a well-known key mostly carries a value of its own vocabulary
            let v = if voc.len() > 4 && r.chance(1, 2) { r.pick(voc).to_string() } else { rand_value(r) };
            Call::Qual(k, v)
        },
        25..=26 => Call::NoQual(rand_key(r)),
        27 => Call::NoQuals,
        28..=29 => {
            let i = r.below(8);
            let voc = crate::gen::key_vocabulary(TYPED_KEYS[i]);
            let v = if r.chance(1, 4) {
                None
            } else if voc.len() > 4 && r.chance(1, 2) {
                Some(r.pick(voc).to_string())
            } else {
                Some(rand_value(r))
            };
            Call::Typed(i as u8, v)
        },
        30..=32 => Call::Checksum(if r.chance(1, 6) { None } else { Some(rand_cs_entries(r)) }),
        33 => Call::PartsNs(rand_value(r)),
        34 => Call::PartsName(rand_value(r)),
        35 => Call::PartsVer(rand_value(r)),
        36 => Call::PartsSub(rand_value(r)),
        39 => Call::Rebuild,
        42 => Call::PartsQualIndexMut(rand_key(r), rand_value(r)),
        43 => Call::PartsQualGetMut(rand_key(r), rand_value(r)),
        44 => Call::PartsQualIterMutAppend(rand_value(r)),
        45 => Call::PartsQualEntry(rand_key(r), rand_value(r)),
        46 => Call::Reparse,
        47 => Call::PartsQualOrInsert(rand_key(r), rand_value(r)),
        48 => Call::PartsTruncate(r.below(5) as u8, *r.pick(&[0u16, 0, 1, 2, 22, 23, 24, 100])),
        37 => {
            if typed {
                Call::PartsType(r.pick(&model::KNOWN_TYPES).to_string())
            } else {
                Call::PartsType(r.pick(U_TYPES_GENERIC).to_string())
            }
        },
        38 => {
            let keys = ["a", "b", "B", "c", "a_b", "ab", "checksum", "!"];
            let n = r.below(6);
            Call::PartsQualsFromIter((0..n).map(|_| (r.pick(&keys).to_string(), r.pick(&["1", "2", "", "x"]).to_string())).collect())
        },
        _ => Call::PartsQual(rand_key(r), rand_value(r)),
    }
}

/// Every way the harness knows to change one qualifier `k` of a builder.
pub fn qual_mutations(k: &str, v: &str) -> Vec<Call> {
    let mut m = vec![
        Call::Qual(k.into(), v.into()),
        Call::NoQual(k.into()),
        Call::NoQuals,
        Call::PartsQual(k.into(), v.into()),
        Call::PartsQualIndexMut(k.into(), v.into()),
        Call::PartsQualGetMut(k.into(), v.into()),
        Call::PartsQualIterMutAppend(v.into()),
        Call::PartsQualEntry(k.into(), v.into()),
        Call::PartsQualOrInsert(k.into(), v.into()),
        Call::PartsQualsFromIter(vec![(k.into(), v.into())]),
    ];
    if let Some(i) = TYPED_KEYS.iter().position(|t| t.eq_ignore_ascii_case(k)) {
        if TYPED_KEYS[i] != "checksum" {
            m.push(Call::Typed(i as u8, Some(v.into())));
            m.push(Call::Typed(i as u8, None));
        }
    }
    m
}

/// "Observe, take apart, change one thing, put together": a value is built and looked at
/// (printed, hashed, cloned), converted back into a builder, one field is changed through one
/// mutation path and nothing else, and the result is built again. Anything a value remembers
/// about its earlier rendering shows as a disagreement afterwards.
pub fn stale_hist(r: &mut Rng, typed: bool) -> Hist {
    let ty = if typed { r.pick(&model::KNOWN_TYPES).to_string() } else { crate::spell::gen_type(r) };
    let mut calls = Vec::new();
    if typed || r.chance(1, 2) {
        calls.push(Call::Ns(rand_value(r)));
    }
    let nq = r.range(1, 4);
    let mut keys = Vec::new();
    for _ in 0..nq {
        let k = if r.chance(1, 3) { r.pick(&TYPED_KEYS[..7]).to_string() } else { crate::spell::gen_key(r) };
        calls.push(Call::Qual(k.clone(), rand_value(r)));
        keys.push(k);
    }
    if r.chance(1, 3) {
        calls.push(Call::Ver(rand_value(r)));
    }
    if r.chance(1, 4) {
        calls.push(Call::Sub(rand_value(r)));
    }
    calls.push(if r.chance(1, 3) { Call::Reparse } else { Call::Rebuild });
    let k = r.pick(&keys).clone();
    let k = if r.chance(1, 4) { k.to_ascii_uppercase() } else { k };
    let change = match r.below(10) {
        0 => Call::Ver(rand_value(r)),
        1 => Call::Name(rand_value(r)),
        2 => Call::Ns(rand_value(r)),
        3 => Call::Sub(rand_value(r)),
        4 => *r.pick(&[Call::NoVer, Call::NoSub, Call::NoNs].map(Box::new)).clone(),
        _ => {
            let m = qual_mutations(&k, &rand_value(r));
            r.pick(&m).clone()
        },
    };
    calls.push(change);
    if r.chance(1, 4) {
        // a text longer than the small-string inline limit, emptied or shortened in place
        let long = format!("{}-longer-than-twenty-three-bytes", rand_value(r));
        let f = r.below(5) as u8;
        calls.push(match f {
            0 => Call::Ns(long),
            1 => Call::Name(long),
            2 => Call::Ver(long),
            3 => Call::Sub(long),
            _ => Call::Qual(r.pick(&keys).clone(), long),
        });
        if r.coin() {
            calls.push(Call::Rebuild);
        }
        calls.push(Call::PartsTruncate(f, *r.pick(&[0u16, 0, 0, 1, 5, 23, 24])));
    }
    if r.chance(1, 3) {
        calls.push(Call::Rebuild);
    }
    Hist { ty, name: if r.chance(1, 6) { rand_value(r) } else { "n".into() }, calls }
}

pub fn rand_hist(r: &mut Rng, typed: bool) -> Hist {
    let ty = if typed {
        r.pick(&model::KNOWN_TYPES).to_string()
    } else if r.chance(1, 4) {
        r.pick(U_TYPES_GENERIC).to_string()
    } else {
        crate::spell::gen_type(r)
    };
    let name = if r.chance(1, 10) { String::new() } else { rand_value(r) };
    let n = if r.chance(1, 12) { r.range(12, 40) } else { r.range(0, 12) };
    Hist { ty, name, calls: (0..n).map(|_| rand_call(r, typed)).collect() }
}
