//! Runtime-monitoring harness for phylum-dev/purl (see /verif/DESIGN.md).
//!
//! `rng`, `gen`, `spell`, `hist` and `model` never touch the library (generators and reference
//! models); `obs`, `exec` and `mon` drive the real code, built from /repo's working tree.

pub mod gen;
pub mod hist;
pub mod model;
pub mod rng;
pub mod spell;

#[cfg(feature = "full")]
pub mod exec;
#[cfg(feature = "full")]
pub mod mon;
#[cfg(feature = "full")]
pub mod obs;
#[cfg(feature = "full")]
pub mod shapes;
#[cfg(feature = "full")]
pub mod shrink;
