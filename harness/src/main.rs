//! `driver <Cxx> --tier quick|thorough --seed N --out FILE [--workers W]`
//! `driver --replay FILE`
//!
//! Runs the monitor of one property on W worker threads (each with its own generator state,
//! monitor state and counters; nothing shared while running), merges the per-worker statistics
//! and writes one JSON result. Verdict and evidence are assembled by /verif/check.

use std::collections::{BTreeMap, BTreeSet, HashSet};
use std::time::Instant;

use purl_verif::mon;
use purl_verif::obs::{self, Ctx, Stats, Tier, Violation};
use serde_json::{json, Value};

fn arg_after(args: &[String], flag: &str) -> Option<String> {
    args.iter().position(|a| a == flag).and_then(|i| args.get(i + 1).cloned())
}

fn main() {
    let args: Vec<String> = std::env::args().skip(1).collect();
    obs::install_panic_hook();
    if let Some(file) = arg_after(&args, "--replay") {
        std::process::exit(replay(&file));
    }
    let prop = args.first().cloned().unwrap_or_else(|| {
        eprintln!("usage: driver <Cxx> --tier quick|thorough --seed N --out FILE");
        std::process::exit(2);
    });
    if !mon::PROPS.contains(&prop.as_str()) {
        eprintln!("unknown property {prop}");
        std::process::exit(2);
    }
    let tier = match arg_after(&args, "--tier").as_deref() {
        Some("thorough") => Tier::Thorough,
        _ => Tier::Quick,
    };
    let seed: u64 = arg_after(&args, "--seed").and_then(|s| s.parse().ok()).unwrap_or(1);
    let workers: usize = arg_after(&args, "--workers").and_then(|s| s.parse().ok()).unwrap_or(16);
    let scale: u64 = arg_after(&args, "--scale").and_then(|s| s.parse().ok()).unwrap_or(100);
    let out = arg_after(&args, "--out");

    let t0 = Instant::now();
    let mut handles = Vec::new();
    for w in 0..workers {
        let prop = prop.clone();
        let h = std::thread::Builder::new()
            .name(format!("worker-{w}"))
            .stack_size(64 << 20)
            .spawn(move || {
                let mut ctx = Ctx::new(tier, seed, w, workers, scale);
                mon::run(&prop, &mut ctx);
                (ctx.st, obs::take_call_counts(), obs::take_panic_counts())
            })
            .expect("spawn worker");
        handles.push(h);
    }
    let mut merged = Stats::default();
    let mut counters: BTreeMap<String, u64> = BTreeMap::new();
    let mut maxes: BTreeMap<String, u64> = BTreeMap::new();
    let mut calls: BTreeMap<String, u64> = BTreeMap::new();
    let mut panics: BTreeMap<String, u64> = BTreeMap::new();
    let mut distinct: HashSet<u64> = HashSet::new();
    let mut sets: BTreeMap<String, BTreeSet<String>> = BTreeMap::new();
    let mut samples: Vec<Value> = Vec::new();
    let mut violations: Vec<Violation> = Vec::new();
    let mut exhaustive: Vec<Value> = Vec::new();
    let mut crashed: Vec<String> = Vec::new();
    for (w, h) in handles.into_iter().enumerate() {
        match h.join() {
            Ok((st, c, p)) => {
                merged.evaluations += st.evaluations;
                merged.violations_total += st.violations_total;
                merged.distinct_capped |= st.distinct_capped;
                for (k, v) in st.counters {
                    if k.starts_with("max:") {
                        let e = maxes.entry(k.to_string()).or_insert(0);
                        *e = (*e).max(v);
                    } else {
                        *counters.entry(k.to_string()).or_insert(0) += v;
                    }
                }
                for (k, v) in st.dyn_counters {
                    *counters.entry(k).or_insert(0) += v;
                }
                distinct.extend(st.distinct);
                for (k, v) in st.sets {
                    sets.entry(k.to_string()).or_default().extend(v);
                }
                if samples.len() < 12 {
                    samples.extend(st.samples.into_iter().take(2));
                }
                for v in st.violations {
                    if !violations.iter().any(|x| x.signature == v.signature) && violations.len() < obs::MAX_VIOLATIONS {
                        violations.push(v);
                    }
                }
                if w == 0 {
                    exhaustive = st.exhaustive;
                }
                for (k, v) in c {
                    *calls.entry(k).or_insert(0) += v;
                }
                for (k, v) in p {
                    *panics.entry(k).or_insert(0) += v;
                }
            },
            Err(e) => {
                let m = e
                    .downcast_ref::<String>()
                    .cloned()
                    .or_else(|| e.downcast_ref::<&str>().map(|s| s.to_string()))
                    .unwrap_or_else(|| "?".into());
                crashed.push(format!("worker {w} crashed outside a monitored call: {m}"));
            },
        }
    }
    counters.extend(maxes);
    let mut min_obs = Vec::new();
    let mut reasons: Vec<String> = crashed.clone();
    for (name, required) in mon::requirements(&prop, tier) {
        let seen = if let Some(set) = name.strip_prefix("set:") {
            sets.get(set).map_or(0, |s| s.len() as u64)
        } else if let Some(ratio) = name.strip_prefix("percent:") {
            // "percent:<numerator counter>/<denominator counter>": required is a percentage
            let (a, b) = ratio.split_once('/').unwrap_or((ratio, ""));
            let (a, b) = (counters.get(a).copied().unwrap_or(0), counters.get(b).copied().unwrap_or(0));
            if b == 0 { 0 } else { a * 100 / b }
        } else {
            counters.get(name).copied().unwrap_or(0)
        };
        if seen < required {
            reasons.push(format!("minimum observation not met: {name} required {required}, seen {seen}"));
        }
        min_obs.push(json!({"name": name, "required": required, "seen": seen}));
    }
    if samples.is_empty() {
        reasons.push("no sample case was recorded".into());
    }
    for (k, v) in &counters {
        if k.starts_with("harness-error:") && *v > 0 {
            reasons.push(format!("{k} = {v}: the harness' own oracles disagree with each other; nothing is concluded"));
        }
    }
    let verdict = if !violations.is_empty() {
        "violated"
    } else if !reasons.is_empty() {
        "inconclusive"
    } else {
        "held"
    };
    let result = json!({
        "property": prop,
        "tier": if tier == Tier::Quick { "quick" } else { "thorough" },
        "seed": seed,
        "workers": workers,
        "scale_percent": scale,
        "evaluations": merged.evaluations,
        "distinct_nontrivial": distinct.len(),
        "distinct_capped": merged.distinct_capped,
        "rule": mon::rule(&prop),
        "counters": counters,
        "sets": sets,
        "samples": samples,
        "exhaustive_subspaces": exhaustive,
        "library_calls": calls,
        "panics_observed": panics,
        "min_observations": min_obs,
        "violations": violations,
        "violations_total": merged.violations_total,
        "verdict": verdict,
        "inconclusive_reasons": reasons,
        "driver_wall_s": t0.elapsed().as_secs_f64(),
    });
    let text = serde_json::to_string_pretty(&result).unwrap();
    match out {
        Some(f) => std::fs::write(&f, text).expect("write result"),
        None => println!("{text}"),
    }
    std::process::exit(match verdict {
        "held" => 0,
        "violated" => 1,
        _ => 2,
    });
}

fn replay(file: &str) -> i32 {
    let text = match std::fs::read_to_string(file) {
        Ok(t) => t,
        Err(e) => {
            eprintln!("cannot read {file}: {e}");
            return 2;
        },
    };
    let v: Value = match serde_json::from_str(&text) {
        Ok(v) => v,
        Err(e) => {
            eprintln!("cannot parse {file}: {e}");
            return 2;
        },
    };
    let prop = v.get("property").and_then(|x| x.as_str()).unwrap_or("");
    let monitor = v.get("monitor").and_then(|x| x.as_str()).unwrap_or("");
    let case = v.get("case").cloned().unwrap_or(Value::Null);
    match mon::replay(prop, monitor, &case) {
        Ok(Some(f)) => {
            println!("REPLAY property={prop} monitor={monitor}: still fails: {}: {}", f.kind, f.detail);
            1
        },
        Ok(None) => {
            println!("REPLAY property={prop} monitor={monitor}: no longer fails on this tree");
            0
        },
        Err(e) => {
            eprintln!("REPLAY property={prop} monitor={monitor}: cannot replay: {e}");
            2
        },
    }
}
