//! Greedy delta-minimisation of witnesses against the oracle that flagged them.

fn tokens(s: &str) -> Vec<String> {
    let cs: Vec<char> = s.chars().collect();
    let mut out = Vec::new();
    let mut i = 0;
    while i < cs.len() {
        if cs[i] == '%' && i + 2 < cs.len() && cs[i + 1].is_ascii_hexdigit() && cs[i + 2].is_ascii_hexdigit() {
            out.push(cs[i..i + 3].iter().collect());
            i += 3;
        } else {
            out.push(cs[i].to_string());
            i += 1;
        }
    }
    out
}

/// Shrink `s` while `fails` keeps returning true. Works on tokens (a %XX escape is one
/// token) so that multi-byte escapes can disappear as a unit. Bounded number of oracle calls.
pub fn shrink_str(s: &str, fails: &mut dyn FnMut(&str) -> bool) -> String {
    let mut cur: Vec<String> = tokens(s);
    let mut budget = 6000usize;
    loop {
        let before = cur.len();
        let mut chunk = (cur.len() / 2).max(1);
        loop {
            let mut i = 0;
            while i < cur.len() && budget > 0 {
                let end = (i + chunk).min(cur.len());
                let cand: String = cur[..i].iter().chain(cur[end..].iter()).map(|x| x.as_str()).collect();
                budget -= 1;
                if fails(&cand) {
                    cur.drain(i..end);
                } else {
                    i += 1.max(chunk / 2);
                }
            }
            if chunk == 1 || budget == 0 {
                break;
            }
            chunk = (chunk / 2).max(1);
        }
        // windows of 2..4 tokens at every position (multi-byte escapes, k=v pairs)
        for w in [4usize, 3, 2] {
            let mut i = 0;
            while i + w <= cur.len() && budget > 0 {
                let cand: String = cur[..i].iter().chain(cur[i + w..].iter()).map(|x| x.as_str()).collect();
                budget -= 1;
                if fails(&cand) {
                    cur.drain(i..i + w);
                } else {
                    i += 1;
                }
            }
        }
        if cur.len() == before || budget == 0 {
            break;
        }
    }
    // replace windows of 4..1 tokens by a single plain character
    for w in [4usize, 3, 2, 1] {
        let mut i = 0;
        while i + w <= cur.len() && budget > 0 {
            if w == 1 && cur[i] == "a" {
                i += 1;
                continue;
            }
            let cand: String =
                cur[..i].iter().map(|x| x.as_str()).chain(std::iter::once("a")).chain(cur[i + w..].iter().map(|x| x.as_str())).collect();
            budget -= 1;
            if fails(&cand) {
                cur.splice(i..i + w, std::iter::once("a".to_string()));
            }
            i += 1;
        }
    }
    cur.concat()
}

/// Shrink a sequence by dropping elements while `fails` keeps returning true.
pub fn shrink_vec<T: Clone>(v: &[T], fails: &mut dyn FnMut(&[T]) -> bool) -> Vec<T> {
    let mut cur: Vec<T> = v.to_vec();
    let mut budget = 1500usize;
    let mut chunk = (cur.len() / 2).max(1);
    loop {
        let mut i = 0;
        let mut progressed = false;
        while i < cur.len() && budget > 0 {
            let end = (i + chunk).min(cur.len());
            let mut cand = cur[..i].to_vec();
            cand.extend_from_slice(&cur[end..]);
            budget -= 1;
            if fails(&cand) {
                cur = cand;
                progressed = true;
            } else {
                i += chunk;
            }
        }
        if budget == 0 {
            break;
        }
        if chunk == 1 {
            if !progressed {
                break;
            }
        } else {
            chunk = (chunk / 2).max(1);
        }
    }
    cur
}

/// Short, stable rendering of a witness for signatures.
pub fn sig_of(s: &str) -> String {
    // the package type of the witness is not part of the failure class
    let norm;
    let s = match s.strip_prefix("pkg:").and_then(|r| r.find('/').map(|i| &r[i..])) {
        Some(rest) => {
            norm = format!("pkg:T{rest}");
            norm.as_str()
        },
        None => s,
    };
    if s.chars().count() <= 48 {
        s.escape_debug().to_string()
    } else {
        format!("h{:016x}", crate::rng::fnv(s.as_bytes()))
    }
}
